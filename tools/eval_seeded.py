#!/venv/bin/python
"""Evaluate seeded mutations: tools/eval_seeded.py <dir-with-patch.diff> <property> [<id>]
Applies patch.diff to a scratch copy of /repo (never to /repo itself), checks that the pinned
tests still pass, that demo.py fails with the patch and passes without, and runs the
property's quick check against the patched copy."""
import json
import os
import shutil
import subprocess
import sys
import tempfile
import time

VERIF = os.path.dirname(os.path.dirname(os.path.abspath(__file__)))


def sh(cmd, **kw):
    return subprocess.run(cmd, capture_output=True, text=True, **kw)


def main():
    d, prop = sys.argv[1], sys.argv[2]
    mid = sys.argv[3] if len(sys.argv) > 3 else os.path.basename(d.rstrip("/"))
    checks = sys.argv[4].split(",") if len(sys.argv) > 4 else [prop]
    tmp = tempfile.mkdtemp(prefix="verif-seeded-")
    out = {"id": mid, "property": prop}
    try:
        shutil.copytree("/repo/src", os.path.join(tmp, "src"), ignore=shutil.ignore_patterns("__pycache__", "*.egg-info"))
        shutil.copytree("/repo/tests", os.path.join(tmp, "tests"), ignore=shutil.ignore_patterns("__pycache__"))
        r = sh(["patch", "-p1", "--no-backup-if-mismatch", "-i", os.path.join(d, "patch.diff")], cwd=tmp)
        out["patch_applies"] = r.returncode == 0
        if r.returncode != 0:
            out["patch_output"] = (r.stdout + r.stderr)[-600:]
            print(json.dumps(out, indent=1))
            return 1
        env = dict(os.environ, PYTHONPATH=os.path.join(tmp, "src"), PYTHONDONTWRITEBYTECODE="1")
        r = sh([sys.executable, "-m", "pytest", "-q", "-p", "no:cacheprovider", "--continue-on-collection-errors"], cwd=tmp, env=env)
        out["tests"] = r.stdout.strip().splitlines()[-1] if r.stdout.strip() else r.stderr[-200:]
        out["tests_same_as_baseline"] = "39 passed" in out["tests"] and "failed" not in out["tests"]
        demo = os.path.join(d, "demo.py")
        r = sh([sys.executable, demo], env=env, cwd=tmp)
        out["demo_with_patch_exit"] = r.returncode
        out["demo_with_patch_msg"] = (r.stderr.strip().splitlines() or [""])[-1][:300]
        env0 = dict(os.environ, PYTHONPATH="/repo/src", PYTHONDONTWRITEBYTECODE="1")
        r = sh([sys.executable, demo], env=env0, cwd=tmp)
        out["demo_without_patch_exit"] = r.returncode
        out["checks"] = {}
        for p in checks:
            env2 = dict(os.environ, VERIF_REPO_SRC=os.path.join(tmp, "src"), VERIF_NO_EVIDENCE="1")
            if os.path.exists("/tmp/reeval/SHORT"):  # regression under time pressure: a shorter batch first; misses are repeated at full budget
                env2["VERIF_BUDGET_S"] = "16"
            t0 = time.time()
            r = sh([os.path.join(VERIF, "check"), p, "--tier", "quick"], env=env2, cwd=VERIF)
            line = next((ln.strip() for ln in r.stdout.splitlines() if ln.startswith("  class=")), "")
            out["checks"][p] = {"exit": r.returncode, "verdict": {0: "MISSED", 1: "caught", 2: "HARNESS-ERROR"}.get(r.returncode, "?"),
                                "wall_s": round(time.time() - t0, 1), "first": line[:400]}
            if r.returncode == 2:
                out["checks"][p]["output"] = r.stdout[-800:] + "\n--stderr--\n" + r.stderr[-2500:]
        print(json.dumps(out, indent=1))
        dest = os.path.join(VERIF, "seeded", mid)
        if out["tests_same_as_baseline"] and out["demo_with_patch_exit"] != 0 and out["demo_without_patch_exit"] == 0:
            os.makedirs(dest, exist_ok=True)
            for f in ("patch.diff", "demo.py", "notes.md"):
                src = os.path.join(d, f)
                if os.path.exists(src) and os.path.realpath(src) != os.path.realpath(os.path.join(dest, f)):
                    shutil.copy(src, os.path.join(dest, f))
            notes = open(os.path.join(d, "notes.md")).read() if os.path.exists(os.path.join(d, "notes.md")) else ""
            meta = {"id": mid, "breaks_property": prop, "needs_to_manifest": notes[:1500],
                    "what_i_ran": ["patch -p1 on a scratch copy of /repo (src+tests)", "pinned pytest command with PYTHONPATH=<copy>/src",
                                   "demo.py with and without the patch", "./check <prop> --tier quick with VERIF_REPO_SRC=<copy>/src"],
                    "result": out}
            with open(os.path.join(dest, "meta.json"), "w") as f:
                json.dump(meta, f, indent=1)
        return 0
    finally:
        shutil.rmtree(tmp, ignore_errors=True)


if __name__ == "__main__":
    sys.exit(main())
