"""W2 — the object world: 2-4 block instances ("actors") of one class, whose edit
operations are interleaved by the seeded scheduler.  After *every* step the invariants are
evaluated on *every* actor, which is what makes it an isolation check (C20) besides the
per-actor sequential checks (C15 channel maps, C16 track lists)."""
import hashlib
import re
import warnings
import io
from collections import Counter

import numpy as np

from . import refcodec as rc, seams
from .simfs import HarnessError

from basictdf.tdfData3D import Data3D, MarkerTrack
from basictdf.tdfEMG import EMG, EMGTrack
from basictdf.tdfEvents import Event, EventsDataType, TemporalEventsData
from basictdf.tdfForce3D import ForceTorque3D, ForceTorqueTrack
from basictdf.tdfForcePlatformsCalibration import ForcePlatformInfo, ForcePlatformsCalibrationDataBlock
from basictdf.tdfForcePlatformsData import ForcePlatformData, ForcePlatformsDataBlock
from basictdf.tdfOpticalSystem import OpticalChannelData, OpticalSetupBlock

CHANNELLED = ("emg", "fpcal", "fpdata")
TRACKED = ("data3d", "ft", "emg")
ALL = ("emg", "fpcal", "fpdata", "data3d", "ft", "optical", "events")
CODE = {"emg": 11, "fpcal": 7, "fpdata": 9, "data3d": 5, "ft": 12, "optical": 6, "events": 16}
FMT = {"emg": 1, "fpcal": 2, "fpdata": 1, "data3d": 1, "ft": 1, "optical": 1, "events": 1}


def _eye():
    return np.eye(3, dtype=np.float32)


def _v3():
    return np.zeros(3, dtype=np.float32)


class Raiser:
    """Iterator that yields k items and then raises: the producer crashes mid-assignment."""

    def __init__(self, items, k):
        self.items, self.k = list(items), k

    def __iter__(self):
        for i, it in enumerate(self.items):
            if i == self.k:
                raise RuntimeError("simulated producer failure")
            yield it
        if self.k >= len(self.items):
            raise RuntimeError("simulated producer failure")


class Actor:
    def __init__(self, cls, n):
        self.cls, self.n = cls, n
        self.obj = None
        self.model = []  # [(channel|None, item id)]
        self.items = {}  # id -> library item object (identity matters for remove-by-object)
        self.last_sha = None
        self.assigned_list = None  # the list object last assigned to .tracks / .platforms
        self.fmt = FMT[cls]  # format code this instance was made with (3D blocks come in two)
        self.links = []  # model of a 3D block's marker links
        self.ctor_list = None  # the list object handed to the constructor (if any)
        self.ctor_ids = None


def _gappy(arr, iid):
    """Item ids select the presence pattern: every 4th item is wholly missing, every 4th has a gap."""
    if iid % 4 == 0:
        arr[...] = np.nan
    elif iid % 4 == 1 and len(arr) > 1:
        arr[len(arr) // 2:] = np.nan
    return arr


def make_item(cls, n, iid, length=None):
    n = n if length is None else length
    lab = f"i{iid}"
    if cls == "emg":
        d = np.full(n, float(iid), dtype=np.float32)
        return EMGTrack(lab, _gappy(d, iid))
    if cls == "data3d":
        return MarkerTrack(lab, _gappy(np.full((n, 3), float(iid), dtype=np.float32), iid))
    if cls == "ft":
        a = _gappy(np.full((n, 3), float(iid), dtype=np.float32), iid)
        return ForceTorqueTrack(lab, a.copy(), a.copy(), a.copy())
    if cls == "fpcal":
        return ForcePlatformInfo(lab, np.array([iid, 1], dtype=np.float32),
                                 np.full((4, 3), float(iid), dtype=np.float32))
    if cls == "fpdata":
        return ForcePlatformData(np.full((n, 2), float(iid), dtype=np.float32),
                                 np.full((n, 3), float(iid), dtype=np.float32),
                                 np.full(n, float(iid), dtype=np.float32))
    if cls == "optical":
        return OpticalChannelData(iid, "lens", "type", lab, np.array([[0, 0], [iid, 1]], dtype="<i4"))
    if cls == "events":
        return Event(lab, [float(iid)], EventsDataType.singleEvent)
    raise HarnessError(cls)


def wrong_kind(kind, cls=None, n=0):
    """An object that is not an item of a `cls` block.  The 'sibling' kinds are things that look
    the part: a track of another block type with the very same number of frames, a whole block
    of the same kind, or of another kind, with that many frames."""
    if kind == "sibling_track":
        other = {"data3d": "ft", "ft": "data3d", "emg": "data3d"}.get(cls, "emg")
        return make_item(other, n, 7)
    if kind == "sibling_track2":
        other = {"data3d": "emg", "ft": "emg", "emg": "ft"}.get(cls, "data3d")
        return make_item(other, n, 8)
    if kind == "lookalike":
        # not a track at all - but its class is *called* like one and it has the right length
        name = {"data3d": "MarkerTrack", "ft": "ForceTorqueTrack", "emg": "EMGTrack"}.get(cls, "MarkerTrack")
        return type(name, (), {"nFrames": n, "nSamples": n, "label": "look", "data": np.zeros((n, 3), dtype=np.float32),
                               "nBytes": 0})()
    if kind == "same_block":
        return new_block(cls if cls in ("emg", "data3d", "ft") else "data3d", n)
    if kind == "other_block":
        return new_block({"data3d": "ft", "ft": "emg", "emg": "data3d"}.get(cls, "ft"), n)
    return {"str": "x", "none": None, "int": 3, "array": np.zeros((3, 3)),
            "other_item": Event("e", [1.0])}[kind]


def new_block(cls, n, fmt=None):
    if cls == "emg":
        return EMG(1000, n)
    if cls == "data3d":
        if fmt == 2:
            from basictdf.tdfData3D import Data3dBlockFormat, Flags
            return Data3D(100, n, _v3(), _eye(), _v3(), 0.0, Flags.rawData, Data3dBlockFormat.byTrackWithoutLinks)
        return Data3D(100, n, _v3(), _eye(), _v3())
    if cls == "ft":
        return ForceTorque3D(100, n, _v3(), _eye(), _v3())
    if cls == "fpcal":
        return ForcePlatformsCalibrationDataBlock()
    if cls == "fpdata":
        return ForcePlatformsDataBlock(0.0, 100, n)
    if cls == "optical":
        return OpticalSetupBlock()
    if cls == "events":
        return TemporalEventsData()
    raise HarnessError(cls)


def item_id_from_label(lab):
    try:
        return int(lab[1:]) if lab.startswith("i") else None
    except ValueError:
        return None


RAISING_ITSELF = re.compile(r"valid-.*refused|observation-raised")


class World2:
    def __init__(self, cfg, focus=None):
        self.cfg = cfg
        self.focus = focus
        self.other = []
        self.degraded = False
        seams.install_poison()
        seams.set_poison(cfg.get("poison", "none"))
        seams.reset_globals()
        self.poison0 = seams.poison_count()
        self.werr = cfg.get("warnings") == "error"
        self.warned_at = None
        self.cls = cfg["cls"]
        self.n = cfg.get("n", 4)
        self.actors = {}
        self.viol = []
        self.stats = Counter()
        if self.werr:
            self.stats["fault_warnings_as_errors_runs"] += 1
        self.states = set()
        self.transitions = set()
        self.h = hashlib.sha256()
        self.step, self.op = -1, None
        self.expect_unchanged = False

    def v(self, prop, tag, pattern, detail=None, also=()):
        if self.warned_at == self.step and RAISING_ITSELF.search(pattern):
            self.stats["not_judged_stopped_by_warning"] += 1  # see world1.World.v
            return
        if getattr(self, "fault_prop", None) == prop and prop == "C16" and self.cls in CHANNELLED:
            also = tuple(also) + ("C15",)
        self.viol.append({"prop": prop, "also": list(also), "tag": tag, "pattern": pattern,
                          "step": self.step, "op": self.op.get("op") if self.op else None,
                          "detail": detail})

    def note(self, *x):
        self.h.update(repr(x).encode())

    def digest(self):
        return self.h.hexdigest()

    def call(self, fn, *a, **kw):
        from .world1 import stall_guard
        try:
            with stall_guard():
                if self.werr:
                    with warnings.catch_warnings():
                        warnings.simplefilter("error")
                        return "ok", fn(*a, **kw)
                return "ok", fn(*a, **kw)
        except HarnessError:
            raise
        except Exception as e:
            if isinstance(e, Warning):
                self.stats["fault_warning_raised"] += 1
                self.warned_at = self.step
            return "exc", e

    # -------------------------------------------------------------- observation
    def encode(self, o):
        b = io.BytesIO()
        o._write(b)
        return b.getvalue()

    def observe(self, a):
        """[(channel|None, item id)] as the public interface shows it, plus consistency checks.
        Returns (pairs, problems)."""
        o, cls = a.obj, a.cls
        probs = []
        if cls == "emg":
            sigs = list(o)
            ids = [item_id_from_label(s.label) for s in sigs]
            if len(o) != len(sigs):
                probs.append(f"len()={len(o)} but iteration yields {len(sigs)}")
            pairs = [(None, i) for i in ids]
        elif cls in ("data3d", "ft"):
            trs = list(o)
            if len(o) != len(trs) or len(o.tracks) != len(trs):
                probs.append("len/tracks/iteration disagree")
            pairs = [(None, item_id_from_label(t.label)) for t in trs]
            for t in trs:
                if t.nFrames != self.n:
                    probs.append(f"track {t.label} has {t.nFrames} frames in a block of {self.n}")
        elif cls == "fpcal":
            pl = o.platforms
            if len(pl) != len(o):
                probs.append(f"{len(pl)} (channel, platform) pairs for {len(o)} platforms")
            pairs = [(int(c), item_id_from_label(p.label)) for c, p in pl]
        elif cls == "fpdata":
            pl = list(o)
            if len(pl) != len(list(o.platforms)):
                probs.append(f"{len(pl)} (channel, platform) pairs for {len(list(o.platforms))} platforms")
            pairs = [(int(c), int(np.asarray(p.torque).reshape(-1)[0]) if self.n else None) for c, p in pl]
        elif cls == "optical":
            ch = list(o)
            if len(o) != len(ch):
                probs.append("len/iteration disagree")
            pairs = [(None, item_id_from_label(c.camera_name)) for c in ch]
        elif cls == "events":
            ev = list(o)
            if len(o) != len(ev):
                probs.append("len/iteration disagree")
            pairs = [(None, item_id_from_label(e.label)) for e in ev]
        else:
            raise HarnessError(cls)
        return pairs, probs

    def observe_encoded(self, a):
        """[(channel|None, item id)] parsed from the encoding by the reference decoder."""
        kind, data = self.call(self.encode, a.obj)
        if kind == "exc":
            return None, f"encoding raised {type(data).__name__}: {data}"
        try:
            C, _r = rc.decode(CODE[a.cls], a.fmt, data)
        except rc.LayoutError as e:
            return None, f"encoding is not parseable: {e}"
        if a.cls == "emg":
            return [(t["ch"], item_id_from_label(t["label"])) for t in C["tracks"]], None
        if a.cls in ("data3d", "ft"):
            if a.cls == "data3d" and C.get("links", []) != a.links:
                return None, f"marker links {C.get('links')} where the model has {a.links}"
            return [(None, item_id_from_label(t["label"])) for t in C["tracks"]], None
        if a.cls == "fpcal":
            return [(p["ch"], item_id_from_label(p["label"])) for p in C["plats"]], None
        if a.cls == "fpdata":
            import struct
            out = []
            for p in C["plats"]:
                iid = int(struct.unpack("<f", p["data"][20:24])[0]) if p["data"] else None
                out.append((p["ch"], iid))
            return out, None
        if a.cls == "optical":
            return [(None, item_id_from_label(c["name"])) for c in C["chans"]], None
        return [(None, item_id_from_label(e["label"])) for e in C["events"]], None

    def check_all(self, moved):
        """Invariants on every actor after every step."""
        for k, a in self.actors.items():
            if a.obj is None:
                continue
            prop_iso = "C20" if k != moved else getattr(self, "fault_prop", None)
            kind, res = self.call(self.observe, a)
            if kind == "exc":
                self.v(prop_iso or self.primary(a), "I-obj", "observation-raised",
                       {"actor": k, "exc": repr(res)[:160]})
                continue
            pairs, probs = res
            if probs:
                self.v(prop_iso or self.primary(a), "I-obj", "inconsistent-views", {"actor": k, "problems": probs[:3]})
                continue
            want_ids = [i for _c, i in a.model]
            got_ids = [i for _c, i in pairs]
            if a.cls in ("data3d", "ft", "emg", "events") and got_ids == want_ids:
                # lookups by label answer from the same content as iteration
                items = list(a.obj)
                for idx, iid in enumerate(want_ids[:4]):
                    if iid is None or want_ids.index(iid) != idx:
                        continue
                    k2, got = self.call(lambda lab=f"i{iid}": a.obj[lab])
                    if k2 == "exc" or got is not items[idx]:
                        self.v(prop_iso or self.primary(a), "I-obj", "label-lookup-disagrees-with-content",
                               {"actor": k, "label": f"i{iid}", "result": repr(got)[:80]})
                        break
                k2, got = self.call(lambda: "i999999" in a.obj)
                if k2 == "ok" and got:
                    self.v(prop_iso or self.primary(a), "I-obj", "label-lookup-disagrees-with-content",
                           {"actor": k, "label": "i999999 (never added)", "result": "contained"})
                if self.viol:
                    continue
            if got_ids != want_ids:
                self.v(prop_iso or self.primary(a), "I-obj",
                       "other-instance-changed" if prop_iso else "items-differ-from-model",
                       {"actor": k, "moved": moved, "model": want_ids[:8], "observed": got_ids[:8]})
                continue
            if a.cls in ("fpcal", "fpdata"):
                if [c for c, _ in pairs] != [c for c, _ in a.model]:
                    self.v(prop_iso or "C15", "I-chan", "channel-detached-from-item",
                           {"actor": k, "model": a.model[:8], "observed": pairs[:8]})
                    continue
            enc, prob = self.observe_encoded(a)
            if prob:
                self.v(prop_iso or self.primary(a), "I-chan" if a.cls in CHANNELLED else "I-obj",
                       "encoding-inconsistent", {"actor": k, "why": prob[:200]})
                continue
            if [i for _c, i in enc] != want_ids:
                self.v(prop_iso or self.primary(a), "I-obj", "encoding-items-differ",
                       {"actor": k, "model": want_ids[:8], "encoded": enc[:8]})
                continue
            if a.cls in CHANNELLED:
                chans = [c for c, _ in enc]
                if chans != [c for c, _ in a.model]:
                    self.v(prop_iso or "C15", "I-chan", "encoded-channel-map-differs",
                           {"actor": k, "model": a.model[:8], "encoded": enc[:8]})
                    continue
                if len(set(chans)) != len(chans):
                    self.v(prop_iso or "C15", "I-chan", "duplicate-channel", {"actor": k, "channels": chans[:8]})
            self.states.add((a.cls, len(a.model)))
            # encoded bytes: an actor that did not move (or whose request was refused) keeps them
            kind, data = self.call(self.encode, a.obj)
            sha = hashlib.sha256(data).hexdigest() if kind == "ok" else None
            if (k != moved or self.expect_unchanged) and a.last_sha is not None and sha != a.last_sha:
                self.v("C20" if k != moved else self.primary(a), "I-obj",
                       "other-instance-encoding-changed" if k != moved else "refused-request-changed-block",
                       {"actor": k, "moved": moved})
            a.last_sha = sha

    def primary(self, a):
        return {"emg": "C15", "fpcal": "C15", "fpdata": "C15", "data3d": "C16", "ft": "C16"}.get(a.cls, "C20")

    # -------------------------------------------------------------- run
    def run(self, ops):
        for i, op in enumerate(ops):
            self.step, self.op = i, op
            self.stats["ops"] += 1
            self.expect_unchanged = False
            self.fault_prop = None
            fn = getattr(self, "op_" + op["op"], None)
            if fn is None:
                raise HarnessError(f"unknown op {op['op']}")
            try:
                fn(op)
                if not self.viol:
                    self.check_all(op.get("a"))
            except HarnessError:
                raise
            except Exception:
                if not self.degraded:
                    raise
                break  # after another property's violation the objects may be in a state the harness cannot walk
            if self.viol:
                if self.focus is None or any(self.focus == v["prop"] or self.focus in v["also"] for v in self.viol):
                    break
                self.other.extend(self.viol[:3])
                self.viol = []
                self.degraded = True
                # adopt what is observed so that the same divergence is not reported at every step
                for a in self.actors.values():
                    if a.obj is None:
                        continue
                    k, res = self.call(self.observe, a)
                    enc, prob = self.observe_encoded(a)
                    if enc is not None and a.cls in CHANNELLED:
                        a.model = list(enc)
                    elif k == "ok":
                        a.model = list(res[0])
                    a.last_sha = None
                if len(self.other) > 12:
                    break
        self.stats["poisoned_allocs"] = seams.poison_count() - self.poison0
        if not self.viol and self.other:
            return self.other[:3]
        return self.viol

    def actor(self, k):
        return self.actors.get(k)

    def skip(self):
        self.stats["skipped"] += 1
        self.note("skip")

    # -------------------------------------------------------------- operations
    def op_create(self, op):
        a = Actor(self.cls, self.n)
        ids = op.get("ids")
        self.actors[op["a"]] = a
        if ids is None or self.cls not in ("optical", "fpcal"):
            if self.cls == "data3d" and op.get("fmt") == 2:
                a.fmt = 2  # two live instances of one class with different formats
                self.stats["create_other_format"] += 1
            kind, o = self.call(new_block, self.cls, self.n, a.fmt)
            if kind == "exc":
                raise HarnessError(f"constructor raised {o!r}")
            a.obj = o
            a.model = []
            self.stats["create_empty"] += 1
            # a block constructed without items starts empty no matter what happened before
            kind, res = self.call(self.observe, a)
            if kind == "ok" and res[0]:
                self.v("C20", "I-obj", "fresh-instance-not-empty", {"actor": op["a"], "content": res[0][:6]})
            return
        items = []
        for i in ids:
            a.items[i] = make_item(self.cls, self.n, i)
            items.append(a.items[i])
        share = self.actor(op["share"]) if op.get("share") is not None else None
        if share is not None and share.ctor_list is not None and share.obj is not None:
            # the caller passes the *same list object* it gave to an earlier constructor
            items = share.ctor_list
            ids = list(share.ctor_ids)
            a.items = dict(share.items)
            self.stats["create_shared_list"] += 1
        a.ctor_list, a.ctor_ids = items, list(ids)
        if self.cls == "optical":
            a.obj = OpticalSetupBlock(channels=items)
            a.model = [(None, i) for i in ids]
        else:
            a.obj = ForcePlatformsCalibrationDataBlock(platforms=items)
            # channels of constructor-supplied platforms are the library's choice; they must be
            # a valid map: adopt what is observed once it is consistent (checked by check_all)
            kind, res = self.call(self.observe, a)
            if kind == "ok" and not res[1] and len(res[0]) == len(ids):
                a.model = [(c, i) for (c, _), i in zip(res[0], ids)]
            else:
                a.model = [(None, i) for i in ids]
                self.v("C15", "I-chan", "constructor-filled-block-has-no-channel-map",
                       {"actor": op["a"], "platforms": len(ids),
                        "pairs": len(res[0]) if kind == "ok" else repr(res)[:100]})
        self.stats["create_with_items"] += 1
        self.note("create", len(ids))

    def op_decode_from(self, op):
        src = self.actor(op["src"])
        if src is None or src.obj is None:
            return self.skip()
        kind, data = self.call(self.encode, src.obj)
        if kind == "exc":
            return self.skip()
        targets = [op["a"]] + ([op["b"]] if "b" in op else [])
        for k in targets:
            a = Actor(self.cls, self.n)
            cls_obj = type(src.obj)
            kind, o = self.call(lambda: cls_obj._build(io.BytesIO(data), src.fmt))
            if kind == "exc":
                self.v(self.primary(src), "I-obj", "decode-of-own-encoding-raised", repr(o)[:160])
                return
            a.obj = o
            a.fmt = src.fmt
            a.model = list(src.model)
            a.links = [list(x) for x in src.links]
            a.items = {}
            self.actors[k] = a
        self.stats["decoded_actors"] += len(targets)
        self.note("decode", len(targets))

    def fresh(self, a, iid, length=None):
        it = make_item(a.cls, a.n, iid, length)
        a.items[iid] = it
        return it

    def adder(self, a):
        o = a.obj
        return {"emg": lambda it, ch=None: o.addSignal(it, channel=ch),
                "fpcal": lambda it, ch=None: o.add_platform(it, channel=ch),
                "fpdata": lambda it, ch=None: o.add_platform(it, channel=ch),
                "data3d": lambda it, ch=None: o.add_track(it),
                "ft": lambda it, ch=None: o.add_track(it),
                "optical": lambda it, ch=None: o.channels.append(it),
                "events": lambda it, ch=None: o.events.append(it)}[a.cls]

    def op_add(self, op):
        a = self.actor(op["a"])
        if a is None or a.obj is None:
            return self.skip()
        it = self.fresh(a, op["id"])
        if op.get("dup") is not None and a.model:
            # an item equal to one the block already holds (same label and data, another channel)
            dup_id = a.model[op["dup"] % len(a.model)][1]
            if dup_id is not None:
                op = dict(op, id=dup_id)
                it = make_item(a.cls, a.n, dup_id) if op.get("dup_how") != "same_object" or dup_id not in a.items \
                    else a.items[dup_id]
                self.stats["add_duplicate_item"] += 1
        elif op.get("borrow") is not None:
            # the very item object another block holds, added here (under whatever channel)
            other = self.actor(op["borrow"])
            if other is not None and other is not a and other.obj is not None and other.model:
                oid = other.model[op.get("k", 0) % len(other.model)][1]
                if oid in other.items:
                    op = dict(op, id=oid)
                    it = other.items[oid]
                    a.items[oid] = it
                    self.stats["add_borrowed_item"] += 1
        ch = op.get("ch")
        used = [c for c, _ in a.model]
        if a.cls not in CHANNELLED:
            ch = None
        if ch == "taken" or (isinstance(ch, int) and ch in used):
            if not used:
                ch = None
            else:
                if ch == "taken":
                    ch = used[op.get("k", 0) % len(used)]
                self.stats["fault_taken_channel"] += 1
                self.expect_unchanged = True
                kind, val = self.call(self.adder(a), it, ch)
                self.note("add-taken", kind)
                if kind != "exc" or not isinstance(val, ValueError):
                    self.v("C15", "I-chan", "taken-channel-not-refused-with-ValueError",
                           {"channel": ch, "result": repr(val)[:100]})
                return
        oor = False
        if op.get("oor") is not None and a.cls in CHANNELLED:
            # an explicit channel the 16-bit map of this block cannot hold: refused - or, if it is
            # taken, the encoding has to carry it (check_all compares the encoded map)
            top = 65535 if a.cls == "fpdata" else 32767
            ch = (top + 1, top + 4465, 70000 + op["oor"], -1 if a.cls == "fpdata" else -32769, -40000)[op["oor"] % 5]
            oor = True
            self.stats["fault_channel_out_of_range"] += 1
        if isinstance(ch, int) and not oor and op.get("id", 0) % 4 == 0:
            # the channel as a numpy integer (what iterating a decoded block's channels yields)
            ch = (np.int16 if -32768 <= ch <= 32767 else np.int64)(ch)
            self.stats["explicit_channel_as_numpy_int"] += 1
        kind, val = self.call(self.adder(a), it, ch)
        if isinstance(ch, np.integer):
            ch = int(ch)
        self.note("add", kind, ch)
        self.transitions.add((a.cls, len(a.model), "add", kind))
        if kind == "exc" and oor:
            self.expect_unchanged = True
            return
        if kind == "exc":
            self.v(self.primary(a), "I-chan" if a.cls in CHANNELLED else "I-obj", "valid-add-refused",
                   {"channel": ch, "automatic": ch is None, "exc": repr(val)[:160], "used": used[:8]})
            return
        self.stats["adds"] += 1
        if a.cls in CHANNELLED and ch is None:
            # automatic channel: any channel not in use; read it back from the encoding
            enc, prob = self.observe_encoded(a)
            if prob or not enc or len(enc) != len(a.model) + 1:
                self.v("C15", "I-chan", "encoding-inconsistent", {"why": (prob or "count")[:200]})
                return
            ch = enc[-1][0]
            if ch in used:
                self.v("C15", "I-chan", "automatic-channel-already-in-use", {"channel": ch, "used": used[:8]})
                return
            self.stats["auto_channels"] += 1
        a.model.append((ch, op["id"]))

    def op_add_bad(self, op):
        """Wrong length / wrong kind: refused, block unchanged (C16)."""
        a = self.actor(op["a"])
        if a is None or a.obj is None or a.cls not in TRACKED:
            return self.skip()  # only C16 (3D, force/torque, EMG) promises that wrong items are refused
        kindname = op["kind"]
        if kindname == "twin1":
            # one frame, and otherwise the spit image of a track the block already holds (same
            # label, same constant value): "equal" under any comparison that broadcasts
            if a.n < 2 or not a.model:
                return self.skip()
            twin = a.model[op["id"] % len(a.model)][1]
            if twin is None:
                return self.skip()
            it = make_item(a.cls, a.n, twin, 1)
        elif kindname.startswith("len"):
            if a.cls not in TRACKED:
                return self.skip()
            delta = int(kindname[3:])
            L = max(a.n + delta, 0)  # "len-99": an empty track
            if L == a.n:
                return self.skip()
            it = make_item(a.cls, a.n, op["id"], L)
        elif kindname.startswith("reassign"):
            # a track built with the right length whose public `data` is then replaced by an
            # array of another length
            if a.cls not in ("data3d", "emg"):
                return self.skip()
            it = make_item(a.cls, a.n, op["id"])
            L = a.n + 3
            it.data = np.zeros((L, 3), dtype=np.float32) if a.cls == "data3d" else np.zeros(L, dtype=np.float32)
        elif kindname.startswith("shape"):
            # same number of elements, other number of frames
            if a.cls == "emg" and a.n >= 2:
                rows = 2 if a.n % 2 == 0 and a.n > 2 else 1
                it = EMGTrack(f"i{op['id']}", np.zeros((rows, a.n // rows), dtype=np.float32))
            elif a.cls == "data3d" and a.n >= 1:
                it = MarkerTrack(f"i{op['id']}", np.zeros(3 * a.n, dtype=np.float32))
                if it.nFrames == a.n:
                    return self.skip()
            else:
                return self.skip()
        else:
            it = wrong_kind(kindname[5:], a.cls, a.n)
            if a.cls == "events":
                return self.skip()
        self.stats["fault_bad_item"] += 1
        self.expect_unchanged = True
        self.fault_prop = "C16"  # whatever goes wrong now is the refused add's doing
        ch = None
        if a.cls in CHANNELLED and op.get("ch") is not None:
            used = {c for c, _ in a.model}
            ch = next(c for c in [op["ch"]] + list(range(500)) if c not in used)  # an explicit, free channel
            self.stats["bad_item_with_explicit_channel"] += 1
        kind, val = self.call(self.adder(a), it, ch)
        self.note("add_bad", kindname, kind)
        if kind != "exc":
            self.v("C16", "I-obj", "invalid-item-accepted", {"what": kindname})

    def remover(self, a, by, k):
        o = a.obj
        ids = [i for _c, i in a.model]
        iid = ids[k]
        if a.cls == "emg":
            return lambda: o.removeSignal(f"i{iid}")
        if a.cls == "fpcal":
            if by == "object" and iid in a.items and ids.count(iid) == 1:
                return lambda: o.remove_platform(a.items[iid])
            if by == "negative":
                return lambda: o.remove_platform(k - len(ids))  # the same item, counted from the end
            return lambda: o.remove_platform(k)
        if a.cls == "optical":
            return lambda: o.channels.pop(k)
        if a.cls == "events":
            return lambda: o.events.pop(k)
        return None

    def op_remove(self, op):
        a = self.actor(op["a"])
        if a is None or a.obj is None or not a.model:
            return self.skip()
        k = op.get("k", 0) % len(a.model)
        if a.cls == "emg":  # removal is by label: the first signal carrying that label goes
            ids = [i for _c, i in a.model]
            k = ids.index(ids[k])
        thunk = self.remover(a, op.get("by", "index"), k)
        if thunk is None:
            return self.skip()
        kind, val = self.call(thunk)
        self.note("remove", kind)
        self.transitions.add((a.cls, len(a.model), "remove", kind))
        if kind == "exc":
            self.v(self.primary(a), "I-chan" if a.cls in CHANNELLED else "I-obj", "valid-remove-refused",
                   {"by": op.get("by"), "exc": repr(val)[:160]})
            return
        self.stats["removes"] += 1
        del a.model[k]

    def op_bulk(self, op):
        """fpcal add_platforms / remove_platforms."""
        a = self.actor(op["a"])
        if a is None or a.obj is None or a.cls != "fpcal":
            return self.skip()
        if op["how"] == "add":
            ids = op["ids"]
            items = [self.fresh(a, i) for i in ids]
            used = [c for c, _ in a.model]
            chs = op.get("chs")
            if chs is not None and op.get("mismatch") and ids:
                # more channels than platforms, or fewer: nothing says what happens - refusal, or
                # some of them added - but the block must stay a consistent one
                free = [c for c in chs if c not in used]
                free = list(dict.fromkeys(free))
                arg = free[:len(ids) - 1] if op["mismatch"] < 0 else free + [c + 100 for c in free[:1]]
                if not free or len(arg) == len(ids):
                    return self.skip()
                self.stats["fault_bulk_length_mismatch"] += 1
                kind, val = self.call(a.obj.add_platforms, items, list(arg))
                self.note("bulk_add_mismatch", kind)
                enc, prob = self.observe_encoded(a)
                k2, res = self.call(self.observe, a)
                if prob or k2 == "exc" or res[1]:
                    self.v("C15", "I-chan", "inconsistent-after-mismatched-bulk-add",
                           {"why": (prob or repr(res))[:200], "platforms": len(ids), "channels": len(arg)})
                    return
                if enc[:len(a.model)] != a.model:
                    self.v("C15", "I-chan", "channel-detached-from-item", {"model": a.model[:8], "encoded": enc[:8]})
                    return
                a.model = list(enc)
                return
            if chs is not None:
                chs = [c for c in chs][:len(ids)]
                if len(chs) != len(ids):
                    return self.skip()
                if len(set(chs)) != len(chs) or set(chs) & set(used):
                    # a channel that is taken (by an earlier platform or earlier in this very list)
                    # must be refused with ValueError; whatever was added before the refusal may
                    # stay, but the map must remain a valid one
                    self.stats["fault_taken_channel"] += 1
                    kind, val = self.call(a.obj.add_platforms, items, chs)
                    self.note("bulk_add_taken", kind)
                    if kind != "exc" or not isinstance(val, ValueError):
                        self.v("C15", "I-chan", "taken-channel-not-refused-with-ValueError",
                               {"channels": chs, "used": used[:8], "result": repr(val)[:100]})
                        return
                    enc, prob = self.observe_encoded(a)
                    if prob:
                        self.v("C15", "I-chan", "inconsistent-after-failed-assignment", {"why": prob[:200]})
                        return
                    if enc[:len(a.model)] != a.model:
                        self.v("C15", "I-chan", "channel-detached-from-item", {"model": a.model[:8], "encoded": enc[:8]})
                        return
                    a.model = list(enc)
                    return
            arg = chs
            if chs is not None and op.get("reuse") and getattr(self, "wiring", None) is not None \
                    and len(self.wiring) == len(ids) and not (set(self.wiring) & set(used)):
                # the caller passes the very list object it gave to an earlier call (on another block)
                arg, chs = self.wiring, list(self.wiring_copy)
                self.stats["bulk_add_reused_channel_list"] += 1
            elif chs is not None:
                arg = list(chs)
                self.wiring, self.wiring_copy = arg, list(arg)
            kind, val = self.call(a.obj.add_platforms, items, arg)
            self.note("bulk_add", kind)
            if arg is not None and list(arg) != list(chs):
                self.v("C20", "I-obj", "callers-channel-list-modified", {"given": list(chs), "now": list(arg)[:8]})
                return
            if kind == "exc":
                self.v("C15", "I-chan", "valid-add-refused", {"bulk": True, "exc": repr(val)[:160]})
                return
            if chs is None:
                enc, prob = self.observe_encoded(a)
                if prob or len(enc) != len(a.model) + len(ids):
                    self.v("C15", "I-chan", "encoding-inconsistent", {"why": (prob or "count")[:200]})
                    return
                chs = [c for c, _ in enc[len(a.model):]]
                if set(chs) & set(used) or len(set(chs)) != len(chs):
                    self.v("C15", "I-chan", "automatic-channel-already-in-use", {"channels": chs, "used": used[:8]})
                    return
            a.model.extend(zip(chs, ids))
            self.stats["bulk_adds"] += 1
        else:
            ks = sorted({k % len(a.model) for k in op["ks"]}, reverse=True) if a.model else []
            if not ks:
                return self.skip()
            allids = [i for _c, i in a.model]
            if op.get("by") == "object" and all(a.model[k][1] in a.items and allids.count(a.model[k][1]) == 1 for k in ks):
                args = [a.items[a.model[k][1]] for k in ks]
            else:
                args = ks  # descending indices stay valid while deleting
            kind, val = self.call(a.obj.remove_platforms, args)
            self.note("bulk_remove", kind)
            if kind == "exc":
                self.v("C15", "I-chan", "valid-remove-refused", {"bulk": True, "exc": repr(val)[:160]})
                return
            for k in ks:
                del a.model[k]
            self.stats["bulk_removes"] += 1

    def op_assign(self, op):
        """Whole-list assignment.  data3d/ft: all-or-nothing (C16).  fpcal [(ch, plat)] and
        fpdata [plat]: replaces the content; after a failure the map must still be consistent."""
        a = self.actor(op["a"])
        if a is None or a.obj is None or a.cls not in ("data3d", "ft", "fpcal", "fpdata"):
            return self.skip()
        ids = op["ids"]
        items = [self.fresh(a, i) for i in ids]
        bad_at, bad_kind, raise_after = op.get("bad_at"), op.get("bad_kind"), op.get("raise_after")
        faulty = False
        if bad_at is not None and items:
            k = bad_at % len(items)
            if bad_kind == "twin1":
                if a.cls not in ("data3d", "ft") or a.n < 2 or not a.model:
                    return self.skip()
                twin = a.model[bad_at % len(a.model)][1]
                if twin is None:
                    return self.skip()
                items[k] = make_item(a.cls, a.n, twin, 1)
            elif bad_kind.startswith("len"):
                if a.cls not in ("data3d", "ft"):
                    return self.skip()
                L = max(a.n + int(bad_kind[3:]), 0)
                if L == a.n:
                    return self.skip()
                items[k] = make_item(a.cls, a.n, ids[k], L)
            elif bad_kind.startswith(("shape", "reassign")):
                return self.skip()
            else:
                items[k] = wrong_kind(bad_kind[5:], a.cls, a.n)
            faulty = True
            self.stats["fault_bad_element"] += 1
        if a.cls == "fpcal":
            chs = op.get("chs") or list(range(len(items)))
            if len(set(chs[:len(items)])) != len(items):
                return self.skip()
            payload = list(zip(chs, items))
            new_model = list(zip(chs, ids))
        else:
            payload = items
            new_model = [(None, i) for i in ids]
        if raise_after is not None:
            payload = Raiser(payload, raise_after % (len(items) + 1))
            faulty = True
            self.stats["fault_raising_iterator"] += 1
        else:
            how = op.get("as", "list")
            if how == "iter":
                payload = iter(payload)  # a one-shot iterable
            elif how == "gen":
                payload = (x for x in payload)
            elif how == "tuple":
                payload = tuple(payload)
            elif how == "own" and a.cls in ("data3d", "ft") and not faulty and a.model:
                # derived lazily from the block's own list: b.tracks = filter(pred, b.tracks)
                keep = set(op.get("keep", [0, 2, 4]))
                cur = list(a.obj.tracks)
                keep_ids = {id(t) for k, t in enumerate(cur) if k in keep}
                kept = [(k, t) for k, t in enumerate(cur) if id(t) in keep_ids]
                items = [t for _k, t in kept]
                ids = [a.model[k][1] for k, _t in kept]
                new_model = [(None, i) for i in ids]
                payload = filter(lambda t, keep_ids=keep_ids: id(t) in keep_ids, a.obj.tracks)
            elif how in ("self", "chain_self", "chain_own") and a.cls in ("data3d", "ft") and not faulty:
                # the new list is described in terms of the block itself: the block as the iterable,
                # or the block's tracks followed by new ones (itertools.chain reads its parts lazily)
                import itertools
                cur = list(a.obj.tracks)
                cur_ids = [i for _c, i in a.model]
                if how == "self":
                    payload, items, ids = a.obj, cur, cur_ids
                else:
                    payload = itertools.chain(a.obj if how == "chain_self" else a.obj.tracks, list(items))
                    items, ids = cur + items, cur_ids + ids
                new_model = [(None, i) for i in ids]
            self.stats["assign_as_" + how] += 1
        a.assigned_list = payload if isinstance(payload, list) else None
        old_ids = [i for _c, i in a.model]
        old_objs = None
        if a.cls in ("data3d", "ft"):
            k0, old_objs = self.call(lambda: list(a.obj.tracks))
            if k0 == "exc":
                self.v("C16", "I-obj", "track-list-unreadable", repr(old_objs)[:120])
                return
        attr = "tracks" if a.cls in ("data3d", "ft") else "platforms"
        if op.get("iadd") and a.cls in ("data3d", "ft") and raise_after is None and isinstance(payload, list):
            # b.tracks += [...]: an assignment like any other (getter, in-place add, setter)
            def iadd(o=a.obj, extra=payload):
                o.tracks += extra
            if not faulty:
                items, ids = list(old_objs) + items, old_ids + ids
                new_model = [(None, i) for i in ids]
            self.stats["assign_by_iadd"] += 1
            kind, val = self.call(iadd)
        else:
            kind, val = self.call(setattr, a.obj, attr, payload)
        self.note("assign", kind, faulty)
        self.transitions.add((a.cls, len(a.model), "assign", kind, faulty))
        if a.cls in ("data3d", "ft"):
            if faulty:
                self.expect_unchanged = True
                if kind != "exc":
                    self.v("C16", "I-obj", "invalid-list-accepted", {"bad_at": bad_at, "raise_after": raise_after})
                    return
                k2, now = self.call(lambda: list(a.obj.tracks))
                if k2 == "exc":  # the block's list is now something that cannot even be walked
                    self.v("C16", "I-obj", "failed-assignment-not-rolled-back",
                           {"before": old_ids[:8], "after": "unreadable: " + repr(now)[:80]})
                elif len(now) != len(old_objs) or any(x is not y for x, y in zip(now, old_objs)):
                    self.v("C16", "I-obj", "failed-assignment-not-rolled-back",
                           {"before": old_ids[:8], "after": [item_id_from_label(getattr(t, "label", "")) for t in now][:8]})
                return
            if kind == "exc":
                self.v("C16", "I-obj", "valid-list-refused", repr(val)[:160])
                return
            k2, now = self.call(lambda: list(a.obj.tracks))
            if k2 == "exc" or len(now) != len(items) or any(x is not y for x, y in zip(now, items)):
                self.v("C16", "I-obj", "assignment-did-not-install-exactly-the-list",
                       {"wanted": ids[:8], "got": repr(now)[:80] if k2 == "exc" else
                        [item_id_from_label(getattr(t, "label", "")) for t in now][:8]})
                return
            a.model = new_model
            self.stats["assigns"] += 1
            return
        # channel-mapped classes
        if not faulty:
            if kind == "exc":
                self.v("C15", "I-chan", "valid-assignment-refused", repr(val)[:160])
                return
            if a.cls == "fpdata":
                enc, prob = self.observe_encoded(a)
                if prob:
                    self.v("C15", "I-chan", "encoding-inconsistent", {"why": prob[:200]})
                    return
                if [i for _c, i in enc] != ids:
                    self.v("C15", "I-chan", "assignment-did-not-install-exactly-the-list",
                           {"wanted": ids[:8], "got": enc[:8]})
                    return
                new_model = [(c, i) for (c, _), i in zip(enc, ids)]
            a.model = new_model
            self.stats["assigns"] += 1
        else:
            # content after a failed assignment is not fixed by the property; the invariants are
            kind2, res = self.call(self.observe, a)
            if kind2 == "exc" or res[1]:
                self.v("C15", "I-chan", "inconsistent-after-failed-assignment",
                       repr(res)[:200])
                return
            enc, prob = self.observe_encoded(a)
            if prob:
                self.v("C15", "I-chan", "inconsistent-after-failed-assignment", {"why": prob[:200]})
                return
            a.model = list(enc)

    def op_touch_callers_list(self, op):
        """After a list was assigned to a block, the caller goes on using *its own* list: appends a
        wrong-length track / drops an element.  The block must not follow."""
        a = self.actor(op["a"])
        if a is None or a.obj is None or a.assigned_list is None:
            return self.skip()
        lst = a.assigned_list
        self.expect_unchanged = True
        if op.get("how") == "pop" and lst:
            lst.pop()
        else:
            if a.cls in ("data3d", "ft"):
                lst.append(make_item(a.cls, a.n, 900 + self.step, a.n + 3))
            elif a.cls == "fpdata":
                lst.append(make_item(a.cls, a.n, 900 + self.step))
            else:
                lst.append((77, make_item(a.cls, a.n, 900 + self.step)))
        a.assigned_list = None
        self.stats["callers_list_touched"] += 1
        self.note("touch_list")

    def op_append_via_getter(self, op):
        """The user changes the list the block hands out (`block.tracks.append(x)`,
        `block.platforms.append(p)`): whatever that list is - the block's own or a copy - the block
        must not come to hold a wrong track, nor items without channels."""
        a = self.actor(op["a"])
        if a is None or a.obj is None or a.cls not in ("data3d", "ft", "fpdata"):
            return self.skip()
        if a.cls == "fpdata":
            thunk = lambda: a.obj.platforms.append(make_item("fpdata", a.n, 950 + self.step))  # noqa: E731
        else:
            bad = make_item(a.cls, a.n, 950 + self.step, a.n + 2) if op.get("k", 0) % 2 else "not a track"
            thunk = lambda: a.obj.tracks.append(bad)  # noqa: E731
        self.expect_unchanged = True
        self.fault_prop = "C16" if a.cls != "fpdata" else "C15"
        kind, _val = self.call(thunk)
        self.stats["fault_append_via_getter"] += 1
        self.note("append_via_getter", kind)

    def op_poison_encode(self, op):
        """A separately created block whose encoding fails half-way (un-encodable label in its
        second item) must not change what the other instances encode."""
        if self.cls not in ("emg", "data3d", "ft", "fpcal", "optical", "events"):
            return self.skip()
        kind, b = self.call(new_block, self.cls, self.n)
        if kind == "exc":
            return self.skip()
        good, bad = make_item(self.cls, self.n, 800), make_item(self.cls, self.n, 801)
        field = "camera_name" if self.cls == "optical" else "label"
        setattr(bad, field, "x" * 300 if op.get("how") != "enc" else "\u4e2d\u6587")
        actor = Actor(self.cls, self.n)
        actor.obj = b
        add = self.adder(actor)
        self.call(add, good, None)
        self.call(add, bad, None)
        kind, _ = self.call(self.encode, b)
        self.stats["fault_failed_encode"] += 1
        self.note("poison_encode", kind)

    def op_decode_dup_channels(self, op):
        """Bytes written by other software in which the channel map names a channel twice: the
        decoder may refuse them; it must not hand out a block whose channels are not unique."""
        if self.cls not in CHANNELLED:
            return self.skip()
        n = self.n
        if self.cls == "emg":
            C = {"t": "emg", "fmt": 1, "nSamples": n, "freq": 100, "start": b"\0" * 4,
                 "tracks": [{"ch": c, "label": f"i{700 + k}", "mask": "1" * n, "data": b"\0" * 4 * n}
                            for k, c in enumerate((4, 9, 4))]}
        elif self.cls == "fpcal":
            C = {"t": "fpcal", "fmt": 2, "plats": [{"ch": c, "label": f"i{700 + k}", "size": b"\0" * 8, "pos": b"\0" * 48}
                                                    for k, c in enumerate((4, 9, 4))]}
        else:
            C = {"t": "fpdata", "fmt": 1, "nFrames": n, "freq": 100, "start": b"\0" * 4,
                 "plats": [{"ch": c, "mask": "1" * n, "data": b"\0" * 24 * n} for c in (4, 9, 4)]}
        data = rc.encode(C)
        cls_obj = type(new_block(self.cls, n))
        kind, o = self.call(lambda: cls_obj._build(io.BytesIO(data), FMT[self.cls]))
        self.stats["fault_duplicate_channel_bytes"] += 1
        self.note("decode_dup", kind)
        if kind == "exc":
            return
        tmp = Actor(self.cls, n)
        tmp.obj = o
        enc, prob = self.observe_encoded(tmp)
        chans = [c for c, _ in enc] if enc else []
        if prob is None and len(set(chans)) != len(chans):
            self.v("C15", "I-chan", "decoded-block-has-duplicate-channels", {"channels": chans})

    def op_link(self, op):
        """Marker links are a public attribute of a 3D block: a user appends to it (creating it
        if the block has none).  No other instance may see the link."""
        a = self.actor(op["a"])
        if a is None or a.obj is None or a.cls != "data3d" or a.fmt != 1:
            return self.skip()
        pair = (op.get("k", 0) % 5, (op.get("k", 0) + 1) % 5)

        def do():
            o = a.obj
            if hasattr(o, "links"):
                if isinstance(o.links, list):
                    o.links.append(pair)
                else:  # a structured array on decoded blocks
                    o.links = np.append(o.links, np.array([pair], dtype=o.links.dtype))
            else:
                o.links = [pair]
        kind, val = self.call(do)
        self.note("link", kind)
        if kind == "ok":
            a.links.append(list(pair))
            self.stats["links_appended"] += 1

    def op_edit(self, op):
        """Edit an item's samples in place: must not show through another instance."""
        a = self.actor(op["a"])
        if a is None or a.obj is None or not a.model or a.cls not in ("emg", "data3d", "ft", "events"):
            return self.skip()
        k = op.get("k", 0) % len(a.model)
        it = list(a.obj)[k]
        for b in self.actors.values():
            if b is not a and b.obj is not None and any(x is it for x in b.items.values()):
                return self.skip()  # the user shares this very object between two blocks
        arr = {"emg": lambda: it.data, "data3d": lambda: it.data, "ft": lambda: it.force,
               "events": lambda: it.values}[a.cls]()
        kind, val = self.call(lambda: arr.__setitem__(slice(None), np.nan_to_num(arr, nan=7.0) + 1000.0))
        self.note("edit", kind)
        if kind == "ok":
            self.stats["edits"] += 1  # check_all: the *other* actors' encoded bytes must not move

    def op_encode(self, op):
        a = self.actor(op["a"])
        if a is None or a.obj is None:
            return self.skip()
        kind, data = self.call(self.encode, a.obj)
        self.note("encode", kind, hashlib.sha256(data).hexdigest() if kind == "ok" else "")
        self.stats["encodes"] += 1
