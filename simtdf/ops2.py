"""Seeded generation of W2 runs (object world)."""
from . import world2

CLASSES = {"C15": ("emg", "fpcal", "fpdata"), "C16": ("data3d", "ft", "emg"),
           "C20": world2.ALL}
BAD_KINDS = ["len+1", "len-1", "len+2", "len+7", "len-99", "shape:2d", "reassign", "kind:str", "kind:none", "kind:int", "kind:array",
             "kind:other_item", "kind:sibling_track", "kind:sibling_track2", "kind:same_block", "kind:other_block", "kind:lookalike", "twin1", "twin1"]


def gen_run(rng, prop, index, tier):
    classes = CLASSES[prop]
    cls = classes[index % len(classes)]
    n = rng.choice((1, 2, 3, 4, 6))
    cfg = {"cls": cls, "n": n, "poison": rng.choice(("zero", "x42", "xAA", "ramp")),
           "warnings": rng.choice(("default",) * 6 + ("error",))}
    ops = []
    nid = [0]

    def ids(k):
        out = list(range(nid[0] + 1, nid[0] + 1 + k))
        nid[0] += k
        return out

    nact = rng.randint(2, 4)
    alive = []
    target = rng.randint(6, 30 if tier == "quick" else 60)

    def create(a):
        r = rng.random()
        if alive and r < 0.35:
            src = rng.choice(alive)
            if rng.random() < 0.4 and a + 1 < 6:
                ops.append({"op": "decode_from", "a": a, "b": a + 10, "src": src})
                alive.extend([a, a + 10])
            else:
                ops.append({"op": "decode_from", "a": a, "src": src})
                alive.append(a)
        elif r < 0.6 and cls in ("optical", "fpcal"):
            op = {"op": "create", "a": a, "ids": ids(rng.randint(1, 3))}
            if alive and rng.random() < 0.35:
                op["share"] = rng.choice(alive)
            ops.append(op)
            alive.append(a)
        else:
            ops.append({"op": "create", "a": a, "ids": None, "fmt": 2 if cls == "data3d" and rng.random() < 0.35 else None})
            alive.append(a)

    create(0)
    next_actor = 1
    while len(ops) < target:
        if next_actor < nact and rng.random() < 0.25:
            create(next_actor)
            next_actor += 1
            continue
        a = rng.choice(alive)
        r = rng.random()
        if r < 0.38:
            ch = None
            if cls in world2.CHANNELLED:
                q = rng.random()
                ch = None if q < 0.5 else ("taken" if q < 0.62 else rng.choice((rng.randint(0, 12), rng.randint(0, 300))))
                if cls == "fpdata" and isinstance(ch, int) and rng.random() < 0.3:
                    ch = rng.choice((32767, 32768, 40000 + ch, 65535, 65534))  # this block's map is unsigned
                elif cls in ("emg", "fpcal") and isinstance(ch, int) and rng.random() < 0.25:
                    ch = rng.choice((32767, 32766, 32000 + ch, -1, -1 - ch, -32768))  # the ends of a signed 16 bit map
            op = {"op": "add", "a": a, "id": ids(1)[0], "ch": ch, "k": rng.randint(0, 9)}
            q = rng.random()
            if q < 0.12:
                op["dup"] = rng.randint(0, 9)
                op["dup_how"] = rng.choice(("equal", "same_object"))
            elif q < 0.22 and len(alive) > 1:
                op["borrow"] = rng.choice([x for x in alive if x != a])
            if isinstance(ch, int):
                op["explicit"] = True
                if rng.random() < 0.06:
                    op["oor"] = rng.randint(0, 9)
            ops.append(op)
        elif r < 0.52:
            ops.append({"op": "remove", "a": a, "k": rng.randint(0, 9), "by": rng.choice(("index", "object", "label", "negative"))})
        elif r < 0.64:
            ops.append({"op": "add_bad", "a": a, "id": ids(1)[0], "kind": rng.choice(BAD_KINDS),
                        "ch": rng.choice((None, None, rng.randint(0, 40)))})
        elif r < 0.80 and cls in ("data3d", "ft", "fpcal", "fpdata"):
            k = rng.randint(0, 4)
            op = {"op": "assign", "a": a, "ids": ids(k)}
            q = rng.random()
            if q < 0.35 and k:
                op.update(bad_at=rng.randint(0, k - 1), bad_kind=rng.choice(BAD_KINDS))
            elif q < 0.55:
                op.update(raise_after=rng.randint(0, k))
            else:
                op["as"] = rng.choice(("list", "list", "iter", "gen", "tuple", "own", "self", "chain_self", "chain_own"))
                op["keep"] = rng.sample(range(6), rng.randint(0, 4))
            if q >= 0.55 and op["as"] == "list" or q < 0.35:
                op["iadd"] = rng.random() < 0.3
            if cls == "fpcal":
                chs = rng.sample(range(0, 40), k)
                op["chs"] = chs
            ops.append(op)
        elif r < 0.88 and cls == "fpcal":
            if rng.random() < 0.5:
                k = rng.randint(1, 3)
                q = rng.random()
                chs = None if q < 0.45 else rng.sample(range(40, 90), k)
                if q > 0.85 and k > 1:
                    chs[-1] = chs[0]  # a channel repeated inside the list
                elif q > 0.75:
                    chs[rng.randrange(k)] = rng.randint(0, 3)  # probably taken already
                op = {"op": "bulk", "a": a, "how": "add", "ids": ids(k), "chs": chs}
                if chs is not None and 0.45 <= q <= 0.75:
                    r2 = rng.random()
                    if r2 < 0.2:
                        op["mismatch"] = rng.choice((-1, 1))
                    elif r2 < 0.45:
                        op["reuse"] = True
                ops.append(op)
            else:
                ops.append({"op": "bulk", "a": a, "how": "remove", "ks": [rng.randint(0, 9) for _ in range(rng.randint(1, 2))],
                            "by": rng.choice(("index", "object"))})
        elif r < 0.92:
            ops.append({"op": "edit", "a": a, "k": rng.randint(0, 9)})
        elif r < 0.935 and cls == "data3d":
            ops.append({"op": "link", "a": a, "k": rng.randint(0, 9)})
        elif r < 0.943:
            ops.append({"op": "touch_callers_list", "a": a, "how": rng.choice(("append", "append", "pop"))})
        elif r < 0.95:
            ops.append({"op": "append_via_getter", "a": a, "k": rng.randint(0, 9)})
        elif r < 0.97:
            ops.append({"op": "poison_encode", "a": a, "how": rng.choice(("long", "enc"))})
        elif r < 0.98:
            ops.append({"op": "decode_dup_channels", "a": a})
        else:
            ops.append({"op": "encode", "a": a})
    return cfg, ops
