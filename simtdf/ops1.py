"""Seeded generation of W1 runs: swarm configuration + explicit operation list."""
from . import gen, seams
from .refcodec import TYPE_CODE

BUFS = [1, 16, 64, 288, 4096, 8192, 8192, 1 << 20]

BASE = {
    # initial state
    "init": {"new": 5, "foreign": 3, "foreign_garbage": 2, "foreign_hole": 0.25, "foreign_noncompact": 0.4,
             "capture": 0.03},
    "n_choices": [14, 14, 14, 1, 2, 3, 5, 9, 16, 20],  # the library creates 14; other software, anything
    "files": [1, 1, 1, 2],
    # sessions
    "session": {"w": 10, "fresh": 1.5, "ro": 0.6, "out": 0.3, "armed_out": 0.2, "stale": 0.3},
    "end": {"exit": 8, "exit_exc": 1, "kill": 1},
    "ops": {"add": 10, "remove": 6, "replace": 4, "set": 3, "reput": 1, "edit_restore": 1, "read_obs": 1, "read_w": 1,
            "read_twice": 0.3, "same_size_switch": 0.3, "reject_some": 0.5, "enospc": 0.0,
            "reject_all": 0.0, "mode_matrix": 0.0, "decode_twice": 0.3, "copy": 0.2, "odd_size": 0.15, "replace_near": 0.4},
    "between": {"scribble": 0.0, "read_obs": 0.3, "clobber": 0.05, "open_bad": 0.03, "copy": 0.1, "sig_flip": 0.02,
                "truncated_decode": 0.0, "open_near": 0.02, "enospc_create": 0.01},
    "kinds": gen.KINDS,
    "opaque": 0.5,  # probability that a foreign file carries opaque blocks
    "big": 0.02,
    "len": (6, 28),
    "dup_add": 0.06,
    "absent_rm": 0.05,
    "gap_heavy": False,
}


def profile(prop):
    import copy
    p = copy.deepcopy(BASE)
    if prop == "C03":
        p["n_choices"] = [1, 2, 2, 3, 3, 5, 9, 14]
        p["init"].update(foreign_hole=0.3, foreign_noncompact=0.6)
        p["ops"].update(add=10, remove=9, replace=5, set=4, read_obs=0.3, read_w=0.3)
    elif prop == "C09":
        p["n_choices"] = [2, 3, 5, 9, 14, 14]
        p["ops"].update(add=10, remove=10, replace=3, set=2, read_obs=0.2, read_w=0.2)
    elif prop == "C04":
        p["init"].update(foreign=4, foreign_garbage=3)
        p["opaque"] = 0.8
        p["ops"].update(replace=7, set=4, remove=8, replace_near=2)
    elif prop == "C01":
        p["ops"].update(reput=3, replace=5, set=4, edit_restore=4, same_size_switch=2)
        p["big"] = 0.05
        p["huge_cell"] = 0.1
    elif prop == "C02":
        p["big"] = 0.05
        p["init"].update(capture=0.12)
        p["ops"].update(edit_restore=4)
        p["huge_cell"] = 0.1
        p["ops"].update(read_w=2, odd_size=3)
    elif prop == "C05":
        p["kinds"] = list(gen.SEGMENTED)
        p["ops"].update(decode_twice=6, add=8, replace=6, set=4, remove=3, edit_restore=6)
        p["between"].update(truncated_decode=0.5)
        p["huge"] = 0.008
        p["gap_heavy"] = True
        p["init"] = {"new": 6, "foreign": 3, "foreign_garbage": 1, "foreign_hole": 0.1, "foreign_noncompact": 0.2,
                     "capture": 0.03}
    elif prop == "C06":
        p["init"].update(foreign=4, foreign_garbage=4, capture=0.12)
        p["ops"].update(reput=2, edit_restore=2, odd_size=1.5)
        p["huge_cell"] = 0.06
    elif prop == "C07":
        p["ops"].update(reject_all=5, add=8, remove=4, reject_some=0, edit_restore=3)
        p["session"].update(ro=1.5, stale=0.8)
        p["n_choices"] = [14, 14, 2, 3, 5, 9, 16, 20]
        p["init"].update(foreign_hole=0.6, foreign_noncompact=2.5)
        p["fullcomment"] = 0.25  # entries that cannot be written back, in tables whose order is not the storage order
        p["dup_add"] = 0.15
        p["absent_rm"] = 0.12
    elif prop == "C08":
        p["session"] = {"w": 5, "fresh": 1, "ro": 3, "out": 3, "armed_out": 3, "stale": 3}
        p["end"] = {"exit": 5, "exit_exc": 4, "kill": 0.5}
        p["ops"].update(mode_matrix=6, read_w=3, read_obs=1, copy=1.5, enospc=1.0, read_twice=2)
        p["huge"] = 0.012
        p["between"].update(copy=0.5)
        p["files"] = [1, 2, 2]
        p["len"] = (6, 20)
    elif prop == "C10":
        p["end"] = {"exit": 6, "exit_exc": 1, "kill": 4}
        p["ops"].update(read_w=1.5)
    elif prop == "C11":
        p["dup_add"] = 0.2
        p["ops"].update(set=8, read_w=3, read_obs=2)
        p["n_choices"] = [14, 2, 3, 5, 9]
        p["files"] = [1, 1, 2, 2]
    elif prop == "C12":
        p["between"].update(scribble=3)
        p["init"].update(foreign_garbage=5, capture=0.12)
        p["ops"].update(reput=3)
    elif prop == "C20":
        p["ops"].update(read_twice=8, add=8, remove=3, replace=3, set=3, read_obs=0.5, read_w=0.5)
        p["huge_cell"] = 0.15
        p["session"] = {"w": 6, "fresh": 0.5, "ro": 4, "out": 0.2, "armed_out": 0.1, "stale": 0.2}
    elif prop == "C17":
        p["files"] = [2, 3, 3]
        p["between"].update(clobber=2, open_bad=1, copy=2, sig_flip=1, open_near=0.8, enospc_create=0.6)
        p["ops"].update(copy=2)
        p["len"] = (6, 20)
    return p


def wchoice(rng, weights):
    items = [(k, w) for k, w in weights.items() if w > 0]
    tot = sum(w for _, w in items)
    r = rng.random() * tot
    for k, w in items:
        r -= w
        if r <= 0:
            return k
    return items[-1][0]


def clock_step(rng):
    r = rng.random()
    if r < 0.12:
        return 0  # the next operation happens within the same second
    if r < 0.5:
        return rng.randint(1, 120)
    if r < 0.8:
        return rng.randint(121, 86400 * 3)
    if r < 0.95:
        return rng.randint(86400 * 3, 86400 * 200)
    return -rng.randint(1, 7200)  # clock stepped backwards


C05_MASKS = None


def enumerated_mask(j, nmax):
    """j-th mask in the enumeration of all masks over 1..nmax frames."""
    total = sum(2**n for n in range(1, nmax + 1))
    j %= total
    for n in range(1, nmax + 1):
        if j < 2**n:
            return format(j, f"0{n}b")
        j -= 2**n
    raise AssertionError


class Gen:
    def __init__(self, rng, prof, index=0, tier="quick", prop=None):
        self.rng, self.p, self.index, self.tier, self.prop = rng, prof, index, tier, prop
        self.ops = []
        self.present = {}  # f -> {code: decodable?}
        self.n = {}
        self.hole = {}
        self.exists = {}

    def dt(self):
        """dtype / container of the arrays the user hands over (see adapters._as)."""
        return self.rng.choice((False, False, False, False, True, True, "be", "be64", "ma", "strided", "fortran", "list"))

    def emit(self, **op):
        op["clock"] = clock_step(self.rng)
        self.ops.append(op)

    def block(self, kinds=None, min_items=0, exclude=(), only=None):
        rng = self.rng
        pool = [k for k in (kinds or self.p["kinds"]) if TYPE_CODE[k] not in exclude]
        if only:
            pool = [k for k in pool if TYPE_CODE[k] in only] or pool
        if not pool:
            pool = list(kinds or self.p["kinds"])
        kind = rng.choice(pool)
        masks = None
        huge_p = self.p.get("huge", 0.004 if self.tier == "thorough" else 0.002)
        if rng.random() < huge_p:
            # a block of a few hundred KiB: size thresholds (buffer sizes, 64 KiB, chunked copies)
            hk = rng.choice([k for k in ("emg", "emg", "data3d", "fpdata", "events") if k in pool] or [None])
            if hk == "events":
                # one sequence with more time stamps than a 16-bit count holds
                C = gen.block(rng, "events", min_items=1)
                C["events"][rng.randrange(len(C["events"]))].update(kind=1, values=gen.f32s(rng, rng.choice((65536, 65537, 70001)), "ordinary"))
                return C
            if hk:
                n = rng.choice((rng.randint(16384, 70000), rng.randint(65537, 140000)))
                m = "1" * n if rng.random() < 0.5 else "1" * (n // 3) + "0" * 7 + "1" * (n - n // 3 - 7)
                return gen.block(rng, hk, masks=[m], fmix="ordinary")
        if self.p["gap_heavy"] and kind in gen.SEGMENTED and rng.random() < 0.8:
            # stratified presence masks: run i enumerates masks 3*(i//4), 3*(i//4)+1, ... of track
            # kind i%4, so 4 * ceil(sum(2^n) / 3) runs store every mask over 1..nmax frames
            nmax = 8 if self.tier == "quick" else 10
            want = gen.SEGMENTED[self.index % 4]
            if want in pool:
                kind = want
            if not hasattr(self, "mask_cursor"):
                self.mask_cursor = (self.index // 4) * 3
            m0 = enumerated_mask(self.mask_cursor, nmax)
            masks = [m0]
            for t in range(1, rng.randint(1, 3)):
                m = enumerated_mask(self.mask_cursor + t, nmax)
                if len(m) != len(m0):
                    break
                masks.append(m)
            self.mask_cursor += len(masks)
        return gen.block(rng, kind, big=rng.random() < self.p["big"], min_items=min_items, masks=masks,
                         huge_cell=(kind == "data2d" and rng.random() < self.p.get("huge_cell", 0.02)))

    def init_file(self, f):
        rng = self.rng
        how = wchoice(rng, self.p["init"])
        if how == "capture" and any(o["op"] == "capture" for o in self.ops):
            how = "new"  # at most one 2 MB file per run
        if how == "new":
            self.emit(op="new", f=f)
            self.present[f], self.n[f], self.hole[f] = {}, 14, False
        elif how == "capture":
            self.emit(op="capture", f=f)
            self.present[f] = {c: True for c in (6, 7, 4, 9, 11, 2, 5, 12)}
            self.n[f], self.hole[f] = 14, False
        else:
            n = rng.choice(self.p["n_choices"])
            k = rng.randint(0, min(n, 5))
            if n >= 14 and rng.random() < (0.25 if n == 14 else 0.6):
                k = rng.randint(9, min(n, 16))  # a crowded table (the library's own nine types cannot fill 14 slots)
            slots = []
            used = set()
            for _ in range(k):
                from .refcodec import OPAQUE_CODES
                opaque_left = [c for c in OPAQUE_CODES if c not in used]
                if opaque_left and rng.random() < (self.p["opaque"] * 0.5 if k <= 5 else 0.5):
                    o = gen.opaque(rng, exclude=used, known_ok=True)
                    s = {"code": o["code"], "fmt": o["fmt"], "bytes": o["bytes"]}
                    code = o["code"]
                else:
                    C = self.block(exclude=used)
                    s = {"C": C}
                    if C["t"] == "optical" and C["chans"] and rng.random() < 0.3:
                        # another writer may fill the 32-byte name field completely (no terminator)
                        ch = rng.choice(C["chans"])
                        ch[rng.choice(("lens", "type", "name"))] = gen.text(rng, 33, "max")
                    if C["t"] in gen.SEGMENTED and rng.random() < 0.25:
                        s["run_order"] = rng.choice(("reversed", "reversed", "split", "split_reversed"))  # another writer's run table
                    code = gen.code_of(C)
                if code in used:
                    continue
                used.add(code)
                base = 900_000_000 + rng.randint(0, 400_000_000)
                if rng.random() < 0.08:
                    base = -rng.randint(10**6, 2_100_000_000)  # a date before 1970 (the field is a signed 32-bit count)
                s.update(cdate=base, mdate=base + rng.randint(0, 10**6), adate=base + rng.randint(0, 10**7),
                         comment=gen.text(rng, 256))
                slots.append(s)
            if how == "foreign_hole" and slots and len(slots) < n:
                slots.insert(rng.randint(0, len(slots) - 1), None)
            layout = "compact"
            if how == "foreign_noncompact":
                layout = rng.choice(("reversed", "gaps"))
            extra = {}
            if rng.random() < 0.2:
                extra["version"] = rng.choice((0, 2, 2, 3, 7, 2**31, 2**32 - 1))  # nobody checks the version; nobody may change it
            if rng.random() < 0.15:
                extra["unused_fmt"] = rng.randint(1, 7)
            if rng.random() < 0.12:
                # nothing says what the offset of an unused slot is; other software leaves anything there
                extra["unused_off"] = rng.choice(("zero", "neg", "inside", "beyond", "table"))
            if rng.random() < 0.3:
                extra["hdr"] = [rng.choice((rng.randint(0, 2**31 - 1), -rng.randint(1, 2**31 - 1), rng.randint(10**9, 17 * 10**8)))
                                for _ in range(3)]
            if rng.random() < self.p.get("badtext", 0.04):
                # a comment with a byte windows-1252 does not define, anywhere in the table
                extra["badtext"] = {"slot": rng.randrange(max(n, len(slots))), "pos": rng.randint(0, 12),
                                    "byte": rng.randrange(5)}
            if "badtext" not in extra and rng.random() < self.p.get("fullcomment", 0.05):
                extra["fullcomment"] = {"slot": rng.randrange(max(n, len(slots))), "text": gen.text(rng, 257, "max")}
            self.emit(op="foreign", f=f, n=n, slots=slots, layout=layout,
                      garbage=rng.randint(1, 10**6) if how == "foreign_garbage" or rng.random() < 0.15 else None,
                      **extra)
            self.present[f] = {(gen.code_of(s["C"]) if "C" in s else s["code"]): ("C" in s)
                               for s in slots if s is not None}
            self.n[f] = max(n, len(slots))
            self.hole[f] = how == "foreign_hole"
        self.exists[f] = True

    def mutation(self, f, kind):
        rng = self.rng
        pres = self.present[f]
        free = self.n[f] - len(pres)
        if kind == "add":
            if pres and rng.random() < self.p["dup_add"]:
                C = self.block(only=[c for c, d in pres.items() if d])
            else:
                C = self.block(exclude=set(pres))
            code = gen.code_of(C)
            self.emit(op="add", f=f, C=C, comment=gen.comment(rng), f64=self.dt(), stamp=rng.random() < 0.8)
            if code not in pres and free > 0:
                pres[code] = True
        elif kind == "remove":
            if pres and rng.random() >= self.p["absent_rm"]:
                code = rng.choice(sorted(pres))
            else:
                code = rng.choice(sorted(set(TYPE_CODE.values()) - set(pres)) or [5])
            self.emit(op="remove", f=f, code=code, by=rng.choice(("type", "type", "object")))
            pres.pop(code, None)
        elif kind == "replace":
            dec = [c for c, d in pres.items() if d]
            if dec and rng.random() < 0.9:
                C = self.block(only=dec)
            else:
                C = self.block(exclude=set(pres))
            self.emit(op="replace", f=f, C=C, comment=gen.comment(rng), f64=self.dt(), stamp=rng.random() < 0.8,
                      subclass=rng.random() < 0.1)
        elif kind == "set":
            kinds = [k for k in ("data3d", "emg", "events", "ft", "fpdata") if k in self.p["kinds"]]
            C = self.block(kinds=kinds)
            code = gen.code_of(C)
            self.emit(op="set", f=f, C=C, f64=self.dt(), stamp=rng.random() < 0.8, subclass=rng.random() < 0.15)
            if code not in pres and free > 0:
                pres[code] = True
        elif kind == "reput":
            dec = [c for c, d in pres.items() if d]
            if dec:
                self.emit(op="reput", f=f, code=rng.choice(dec))

    def session_op(self, f, in_w):
        rng = self.rng
        k = wchoice(rng, self.p["ops"])
        if k in ("add", "remove", "replace", "set", "reput"):
            self.mutation(f, k)
        elif k == "edit_restore":
            seg = [c for c, d in self.present[f].items() if d and c in (5, 11, 12, 9, 4, 16, 2)]
            if seg:
                q = rng.random()
                self.emit(op="edit_restore", f=f, code=rng.choice(seg),
                          source=rng.choice(("kept", "kept", "decoded", "refused")),
                          via=rng.choice(("replace", "set")), seed=rng.randint(1, 10**9),
                          same_size=q < 0.25, stamp=q >= 0.25 and rng.random() < 0.8)
                if q < 0.25:
                    # same size, same second, same dates: the new entry equals the old one
                    self.ops[-1]["clock"] = 0
                    if rng.random() < 0.6:
                        self.emit(op="read", f=f, who="writer", what=["get", "blocks"])
                        self.ops[-1]["clock"] = 0
                        self.ops[-2], self.ops[-1] = self.ops[-1], self.ops[-2]
            else:
                self.mutation(f, "add")
        elif k == "read_obs":
            self.emit(op="read", f=f, who="observer", ctx=rng.random() < 0.6, what=self.some_readers())
        elif k == "read_w":
            self.emit(op="read", f=f, who="writer", what=self.some_readers())
        elif k == "reject_all":
            pres = [c for c, d in self.present[f].items() if d]
            bases = []
            if pres:
                bases.append(self.block(only=pres, min_items=3))
            bases.append(self.block(exclude=set(self.present[f]), min_items=3))
            if rng.random() < 0.5:
                bases.append(self.block(min_items=2))
            self.emit(op="reject_all", f=f, bases=bases)
        elif k == "mode_matrix":
            self.emit_matrix(f)
        elif k == "enospc":
            self.emit(op="enospc", f=f, C=self.block(exclude=set(self.present[f])))
            return "ended"
        elif k == "read_twice":
            self.emit(op="read_twice", f=f, k=rng.randint(0, 9))
        elif k == "same_size_switch":
            self.emit(op="same_size_switch", f=f, stamp=rng.random() < 0.5)
        elif k == "reject_some":
            # a few refused requests in the middle of an ordinary session (state left by failed calls)
            pres = [c for c, d in self.present[f].items() if d]
            bases = [self.block(exclude=set(self.present[f]), min_items=2)]
            if pres and rng.random() < 0.5:
                bases.append(self.block(only=pres, min_items=2))
            causes = rng.sample(["date_range", "label_long", "label_enc", "label_nul", "comment_long", "comment_enc", "comment_nul", "format", "wrong_obj",
                                 "dup", "full", "replace_absent", "remove_absent"], 3)
            self.emit(op="reject_all", f=f, bases=bases, only=causes)
        elif k == "decode_twice":
            ps = rng.sample(seams.POISONS[:4], 2)
            self.emit(op="decode_twice", f=f, poisons=ps)
        elif k == "copy":
            self.copy_op(f)
        elif k == "replace_near":
            self.emit(op="replace_near", f=f, k=rng.randint(0, 99), how=rng.choice(("sample", "sample", "channels")),
                      via=rng.choice(("replace", "set")), stamp=rng.random() < 0.5)
        elif k == "odd_size":
            kinds = [x for x in gen.SEGMENTED if x in self.p["kinds"] and TYPE_CODE[x] not in self.present[f]]
            if kinds:
                self.emit(op="odd_size", f=f, C=gen.block(rng, rng.choice(kinds), min_items=1),
                          odd=rng.choice(("partial_nan", "partial_nan", "inf")), k=rng.randint(0, 50))

    def some_readers(self):
        rng = self.rng
        if rng.random() < 0.3:
            return None
        pool = ["blocks", "len", "repr", "nBytes", "eq", "iter", "has_data3D", "has_force_and_torque", "has_events",
                "has_emg", "has_force_platforms_data", "data3D", "force_and_torque", "force_platforms_data",
                "events", "emg", "calibrationData", "get", "getitem"]
        return rng.sample(pool, rng.randint(2, 6))

    def emit_matrix(self, f):
        rng = self.rng
        blocks = [gen.block(rng, k, min_items=0) for k in ("data3d", "emg", "events", "ft", "fpdata")]
        blocks.append(gen.block(rng, rng.choice(("optical", "calib", "fpcal", "data2d"))))
        self.emit(op="mode_matrix", f=f, blocks=blocks, what=None if rng.random() < 0.5 else self.some_readers())

    def copy_op(self, f):
        free = [g for g in range(4) if not self.exists.get(g)]
        if not free:
            return
        g = free[0]
        self.emit(op="copy", f=f, to=g)
        self.exists[g] = True
        self.present[g] = dict(self.present[f])
        self.n[g] = self.n[f]
        self.hole[g] = self.hole[f]

    def between(self, f):
        rng = self.rng
        for k, w in self.p["between"].items():
            if w <= 0 or rng.random() >= min(0.9, w if w < 1 else 0.6):
                continue
            if k == "scribble":
                regs = rng.choice((["header", "entry", "block"], ["block"], ["entry"], ["header", "entry"]))
                self.emit(op="scribble", f=f, regions=regs, pattern=rng.choice(("random", "ff", "text", "random", "smallint")),
                          seed=rng.randint(1, 10**6))
            elif k == "read_obs":
                self.emit(op="read", f=f, who="observer", ctx=rng.random() < 0.6, what=self.some_readers())
            elif k == "clobber":
                free = [g for g in range(4, 8) if not self.exists.get(g)]
                targets = [g for g in self.exists if self.exists[g]]
                r = rng.random()
                if r < 0.5 and free:
                    g = free[0]
                    self.emit(op="place", f=g, kind=rng.choice(("junk", "empty", "tdf", "short", "sig_only", "almost_sig", "dir")),
                              len=rng.randint(1, 300))
                    self.exists[g] = "junk"
                    targets.append(g)
                g = rng.choice(targets)
                if rng.random() < 0.5:
                    self.emit(op="new", f=g)
                else:
                    self.emit(op="copy", f=f, to=g)
            elif k == "open_near":
                self.emit(op="open_near", f=f, k=rng.randint(0, 15))
            elif k == "enospc_create":
                free = [g for g in range(4, 8) if not self.exists.get(g)]
                if free:
                    g = free[0]
                    self.emit(op="enospc_create", f=g, src=f if rng.random() < 0.5 else None)
                    self.exists[g] = "junk"
                    free = [h for h in range(4, 8) if not self.exists.get(h)]
                    if free and rng.random() < 0.8:  # and then a creation that has room
                        if rng.random() < 0.6:
                            self.emit(op="new", f=free[0])
                            self.exists[free[0]] = "junk"  # nobody works on it afterwards
                        else:
                            self.emit(op="copy", f=f, to=free[0])
                            self.exists[free[0]] = "junk"
            elif k == "open_bad":
                junk = [g for g, v in self.exists.items() if v == "junk"]
                g = rng.choice(junk) if junk and rng.random() < 0.6 else 9
                self.emit(op="open_bad", f=g)
            elif k == "copy":
                self.copy_op(f)
            elif k == "truncated_decode":
                self.emit(op="truncated_decode", f=f, k=rng.randint(1, 10**6), poisons=rng.sample(seams.POISONS[:4], 2))
            elif k == "sig_flip":
                self.emit(op="sig_flip", f=f, how=rng.choice(("byte", "zero_sig", "zero_all")), k=rng.randint(0, 15),
                          via=rng.choice(("ctx", "ctx", "implicit")))

    def run(self):
        rng = self.rng
        nfiles = rng.choice(self.p["files"])
        for f in range(nfiles):
            self.init_file(f)
        lo, hi = self.p["len"]
        target = rng.randint(lo, hi)
        if self.tier == "thorough" and rng.random() < 0.3:
            target *= 2
        if any(o["op"] == "capture" for o in self.ops):
            target = min(target, 9)  # the 2 MB capture makes every audit expensive: short histories
        prev_w = {}
        while len(self.ops) < target:
            files = [f for f, v in self.exists.items() if v is True]
            f = rng.choice(files)
            kind = wchoice(rng, self.p["session"])
            if kind == "stale" and not prev_w.get(f):
                kind = "w"
            if kind == "w":
                self.emit(op="allow_write", f=f)
                self.emit(op="enter", f=f)
                prev_w[f] = True
            elif kind in ("ro", "stale"):
                self.emit(op="enter", f=f)
            elif kind == "armed_out":
                self.emit(op="allow_write", f=f)
            in_ctx = kind in ("w", "ro", "stale")
            nops = rng.choice((1, 1, 2, 2, 3, 4, 6))
            if kind == "fresh":
                # one-shot `with Tdf(path).allow_write() as t:` sessions through a fresh object
                for _ in range(min(nops, 3)):
                    n0 = len(self.ops)
                    self.mutation(f, rng.choice(("add", "remove", "replace", "set")))
                    for o in self.ops[n0:]:
                        o["fresh"] = True
            elif kind == "w":
                away = False
                # a second file is open at the same time: its object is used alternately with this one
                other = None
                cands = [g for g in files if g != f]
                if cands and rng.random() < self.p.get("dual", 0.5):
                    other = rng.choice(cands)
                    other_w = rng.random() < 0.6
                    if other_w:
                        self.emit(op="allow_write", f=other)
                    self.emit(op="enter", f=other)
                    nops += 2
                for _ in range(nops):
                    if other is not None and rng.random() < 0.5:
                        r = rng.random()
                        if other_w and r < 0.7:
                            self.mutation(other, rng.choice(("add", "add", "remove", "replace", "set")))
                        elif r < 0.85:
                            self.emit(op="read", f=other, who="writer", what=self.some_readers())
                        else:
                            self.emit(op="read", f=other, who="observer", ctx=rng.random() < 0.5, what=self.some_readers())
                        continue
                    if not away and rng.random() < self.p.get("chdir", 0.06):
                        # the program changes directory in the middle of the session
                        self.emit(op="chdir", to="away")
                        away = True
                    if self.session_op(f, True) == "ended":
                        in_ctx = False  # the disk filled up: that session is over
                        prev_w[f] = True
                        break
                    if away and rng.random() < 0.5:
                        self.emit(op="chdir", to="back")
                        away = False
                if away and (not in_ctx or rng.random() < 0.6):
                    self.emit(op="chdir", to="back")
                    away = False
                chdir_back_after_end = away
            else:
                # wrong-mode sessions: the calls a user would make, all of which must be refused
                if kind in ("ro", "stale") and self.p["ops"]["mode_matrix"] > 0 and rng.random() < 0.3:
                    self.emit(op="allow_write", f=f, inside=True)
                if kind == "ro" and rng.random() < 0.25:
                    n0 = len(self.ops)
                    self.mutation(f, rng.choice(("add", "remove", "replace", "set")))
                    for o in self.ops[n0:]:
                        o["fresh"] = True
                    if rng.random() < 0.6:
                        self.copy_op(f)
                for _ in range(min(nops, 3)):
                    r = rng.random()
                    if self.p["ops"].get("read_twice", 0) >= 1 and kind == "ro" and r < 0.7:
                        self.emit(op="read_twice", f=f, k=rng.randint(0, 9))
                    elif self.p["ops"]["mode_matrix"] > 0 and r < 0.6:
                        self.emit_matrix(f)
                    elif r < 0.8:
                        saved = {k: dict(v) for k, v in self.present.items()}
                        self.mutation(f, rng.choice(("add", "remove", "replace", "set")))
                        self.present = saved  # refused: nothing changes
                    else:
                        self.emit(op="read", f=f, who="writer", what=self.some_readers())
            if kind == "w" and other is not None and (not in_ctx or rng.random() < 0.5):
                self.emit(op="exit_exc" if rng.random() < 0.2 else "exit", f=other)  # the other one is closed first
                other = None
            if in_ctx:
                end = wchoice(rng, self.p["end"])
                if end == "exit":
                    self.emit(op="exit", f=f)
                elif end == "exit_exc":
                    self.emit(op="exit_exc", f=f, exc=rng.choice(("RuntimeError", "RuntimeError", "KeyboardInterrupt",
                                                                  "SystemExit", "GeneratorExit")))
                else:
                    self.emit(op="kill_reopen", f=f)
                if kind == "w" and chdir_back_after_end:
                    self.emit(op="chdir", to="back")
                if kind == "w" and other is not None:
                    self.emit(op="exit_exc" if rng.random() < 0.2 else "exit", f=other)
            elif kind == "armed_out" and rng.random() < 0.5:
                # the ambiguous sequence of DESIGN §C08 is generated only in the C08 profile
                pass
            self.between(f)
        return self.ops


def gen_run(rng, prop, index, tier):
    prof = profile(prop)
    cfg = {
        "buf": rng.choice(BUFS),
        "short_read": rng.random() < 0.25,
        "short_write": rng.random() < 0.25,
        "io_seed": rng.randint(1, 2**31),
        "poison": rng.choice(("zero", "x42", "xAA", "ramp", "x42", "xAA")),
        "tz": rng.choice(seams.TZS),
        "epoch": rng.randint(86400 * 800, 2**31 - 86400 * 800),
        "paths": rng.choice(("str", "str", "Path", "mixed", "rel", "tilde")),
        "filenos": True,  # real files always have a descriptor
        "clock": rng.choice(("normal",) * 7 + ("frozen", "frozen", "slow")),
        "mtime_gran": rng.choice((1e-9, 1e-9, 1.0, 2.0)),
        "warnings": rng.choice(("default",) * 6 + ("error",)),  # python -W error
    }
    ops = Gen(rng, prof, index, tier, prop).run()
    return cfg, ops
