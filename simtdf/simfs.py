"""SimFS: an in-memory disk under the *real* CPython buffered I/O stack.

Paths under ROOT (``/simfs/``) are served from a SimDisk; every other path goes
to the real functions.  ``builtins.open``, ``io.open``, ``os.stat``/``lstat``,
``os.remove``/``unlink``/``rename``/``replace``/``truncate`` are wrapped, so
``pathlib.Path.exists/open/stat`` and ``shutil.copyfile`` run their real code on
top of the simulated disk.

The disk records every raw ``open``/``write``/``truncate``/``close`` with the
handle that issued it; the harness reads that log to decide C02/C08/C10/C17.
"""
import builtins
import errno
import io
import os
import stat as _stat

ROOT = "/simfs/"

_real_open = builtins.open
_real_io_open = io.open
_real_stat = os.stat
_real_lstat = os.lstat
_real_remove = os.remove
_real_unlink = os.unlink
_real_rename = os.rename
_real_replace = os.replace
_real_truncate = os.truncate
_real_link = os.link
_real_symlink = os.symlink
_real_access = os.access
_real_chmod = os.chmod
_real_utime = os.utime
_real_mkdir = os.mkdir

_DISK = None  # the installed SimDisk (one per process)


class HarnessError(Exception):
    """The simulator itself is broken or was bypassed (never a VIOLATION)."""


def _key(path):
    try:
        p = os.fspath(path)
    except TypeError:
        return None
    if isinstance(p, bytes):
        try:
            p = p.decode()
        except UnicodeDecodeError:
            return None
    if isinstance(p, str):
        if p.startswith(ROOT):
            return os.path.normpath(p)
        if _DISK is not None and _DISK.actor != "harness" and _DISK.relative and not os.path.isabs(p):
            # while library code runs, the process's working directory is /simfs/cwd
            return os.path.normpath(_DISK.cwd + p)
    return None


class SimRaw(io.RawIOBase):
    """Raw file on a SimDisk.  Short reads/writes are legal for raw I/O and are
    absorbed by the real Buffered* objects wrapped around this."""

    def __init__(self, disk, path, mode, hid, actor):
        super().__init__()
        self.disk = disk
        self.path = path
        self.mode = mode  # normalised: 'rb' | 'r+b' | 'wb' | 'w+b' | 'xb' | 'ab' ...
        self.name = path
        self.hid = hid
        self.actor = actor
        self.pos = 0
        self.data = None  # the inode (bytearray) this handle is bound to, set by SimDisk.open
        self.dead = False  # process "killed": nothing reaches the disk any more
        self._r = "r" in mode or "+" in mode
        self._w = "w" in mode or "+" in mode or "a" in mode or "x" in mode
        self._append = "a" in mode

    # -- capabilities
    def readable(self):
        return self._r

    def writable(self):
        return self._w

    def seekable(self):
        return True

    def fileno(self):
        if not self.disk.filenos:
            raise io.UnsupportedOperation("fileno")  # makes shutil fall back to plain read/write
        return FD_BASE + self.hid

    def isatty(self):
        return False

    # -- data
    def _buf(self):
        # a handle stays bound to the inode it was opened on (rename/unlink under it do not matter)
        return self.data

    def readinto(self, b):
        if self.closed:
            raise ValueError("I/O operation on closed file")
        if not self._r:
            raise io.UnsupportedOperation("not readable")
        data = self._buf()
        n = min(len(b), max(0, len(data) - self.pos))
        if n > 1 and self.disk.short_read:
            n = self.disk.short(n)
        b[:n] = data[self.pos : self.pos + n]
        self.pos += n
        self.disk.n_reads += 1
        self.disk.bytes_read += n
        return n

    def write(self, b):
        if self.closed:
            raise ValueError("I/O operation on closed file")
        if not self._w:
            raise io.UnsupportedOperation("not writable")
        mv = memoryview(b).cast("B")
        n = len(mv)
        if self.dead:
            self.disk.log_event("discard", self, self.pos, n)
            self.pos += n
            return n
        if self.disk.full and n:
            self.disk.counts["enospc"] = self.disk.counts.get("enospc", 0) + 1
            raise OSError(errno.ENOSPC, "No space left on device")
        if n > 1 and self.disk.short_write:
            n = self.disk.short(n)
        data = self._buf()
        if self._append:
            self.pos = len(data)
        if self.pos > len(data):
            data.extend(b"\x00" * (self.pos - len(data)))
        data[self.pos : self.pos + n] = mv[:n]
        self.disk.touch(data)
        self.disk.log_event("write", self, self.pos, n)
        self.pos += n
        return n

    def seek(self, offset, whence=0):
        if self.closed:
            raise ValueError("I/O operation on closed file")
        if whence == 0:
            np_ = offset
        elif whence == 1:
            np_ = self.pos + offset
        elif whence == 2:
            np_ = len(self._buf()) + offset
        else:
            raise ValueError("bad whence")
        if np_ < 0:
            raise OSError(errno.EINVAL, "Invalid argument")
        self.pos = np_
        return np_

    def tell(self):
        if self.closed:
            raise ValueError("I/O operation on closed file")
        return self.pos

    def truncate(self, size=None):
        if self.closed:
            raise ValueError("I/O operation on closed file")
        if not self._w:
            raise io.UnsupportedOperation("not writable")
        if size is None:
            size = self.pos
        if self.dead:
            self.disk.log_event("discard", self, size, 0)
            return size
        data = self._buf()
        old = len(data)
        if size < old:
            del data[size:]
        elif size > old:
            data.extend(b"\x00" * (size - old))
        self.disk.touch(data)
        self.disk.log_event("trunc", self, size, old)
        return size

    def close(self):
        if not self.closed:
            self.disk.log_event("close", self, 0, 0)
            self.disk.open_handles.pop(self.hid, None)
            self.disk.orphans.pop(self.hid, None)
        super().close()


class SimDisk:
    def __init__(self, bufsize=8192, short_read=False, short_write=False, io_seed=1):
        self.files = {}  # path -> bytearray
        self.orphans = {}
        self.open_handles = {}  # hid -> SimRaw
        self.events = []  # (seq, kind, path, hid, mode, actor, a, b)
        self.seq = 0
        self.next_hid = 1
        self.bufsize = bufsize
        self.short_read = short_read
        self.short_write = short_write
        self._lcg = (io_seed * 2862933555777941757 + 3037000493) & (2**64 - 1)
        self.actor = "harness"
        self.filenos = False  # hand out fake file descriptors (os.fstat works on them)
        self.full = False  # every raw write fails with ENOSPC while set
        self.now = lambda: 0.0  # simulated clock, for modification times
        self.mtime_gran = 1e-9  # timestamp granularity of the simulated volume (1 ns, 1 s, 2 s)
        self.mtimes = {}  # id(inode) -> mtime in ns
        self.relative = False  # map relative paths to the simulated working directory while library code runs
        self.cwd = ROOT + "cwd/"  # the process's working directory (os.chdir moves it)
        self.dirs = {os.path.normpath(ROOT), os.path.normpath(ROOT + "cwd"), os.path.normpath(ROOT + "cwd/~"),
                     os.path.normpath(ROOT + "home"), os.path.normpath(ROOT + "elsewhere"),
                     os.path.normpath(ROOT + "elsewhere/~")}
        self.n_reads = 0
        self.bytes_read = 0
        self.stat_calls = 0
        self.counts = {"open": 0, "write": 0, "trunc": 0, "close": 0, "discard": 0}

    # deterministic short-count source (never the run's PRNG)
    def short(self, n):
        self._lcg = (self._lcg * 6364136223846793005 + 1442695040888963407) & (2**64 - 1)
        r = (self._lcg >> 33) & 0xFFFF
        if r % 3 == 0:
            return n
        return 1 + (r % n)

    def touch(self, data):
        g = self.mtime_gran
        t = self.now()
        self.mtimes[id(data)] = int((t // g) * g * 1e9) if g > 1e-9 else int(t * 1e9)

    def log_event(self, kind, raw, a, b):
        self.seq += 1
        self.counts[kind] = self.counts.get(kind, 0) + 1
        self.events.append((self.seq, kind, raw.path, raw.hid, raw.mode, raw.actor, a, b))

    def mark(self):
        return len(self.events)

    def since(self, mark):
        return self.events[mark:]

    # -- file-level API used by the patched functions
    def open(self, path, mode="r", buffering=-1):
        m = "".join(sorted(set(mode.replace("t", ""))))
        if "b" not in m:
            raise HarnessError(f"text-mode open on simulated path {path!r} ({mode!r})")
        core = m.replace("b", "")
        norm = {"r": "rb", "+r": "r+b", "w": "wb", "+w": "w+b", "x": "xb", "+x": "x+b",
                "a": "ab", "+a": "a+b"}.get(core)
        if norm is None:
            raise ValueError(f"invalid mode {mode!r}")
        exists = path in self.files
        if norm[0] == "r" and not exists:
            raise FileNotFoundError(errno.ENOENT, "No such file or directory", path)
        if norm[0] == "x" and exists:
            raise FileExistsError(errno.EEXIST, "File exists", path)
        hid = self.next_hid
        self.next_hid += 1
        raw = SimRaw(self, path, norm, hid, self.actor)
        if norm[0] in "wx":
            old = len(self.files[path]) if exists else -1
            if exists:
                del self.files[path][:]  # O_TRUNC keeps the inode
            else:
                self.files[path] = bytearray()
            raw.data = self.files[path]
            self.touch(raw.data)
            self.open_handles[hid] = raw
            self.log_event("open", raw, old, 1)  # b=1: created/truncated
        else:
            if not exists:
                self.files[path] = bytearray()
            raw.data = self.files[path]
            self.open_handles[hid] = raw
            self.log_event("open", raw, len(self.files[path]), 0)
        if buffering == 0:
            return raw
        bs = self.bufsize if buffering in (-1, None) or buffering == 1 else buffering
        if raw._r and raw._w:
            return io.BufferedRandom(raw, bs)
        if raw._w:
            return io.BufferedWriter(raw, bs)
        return io.BufferedReader(raw, bs)

    def os_open(self, path, flags):
        """os.open on a simulated path: returns a fake descriptor bound to a raw handle."""
        acc = flags & (os.O_RDONLY | os.O_WRONLY | os.O_RDWR)
        exists = path in self.files
        if path in self.dirs:
            raise IsADirectoryError(errno.EISDIR, "Is a directory", path)
        if exists and (flags & os.O_CREAT) and (flags & os.O_EXCL):
            raise FileExistsError(errno.EEXIST, "File exists", path)
        if not exists and not (flags & os.O_CREAT):
            raise FileNotFoundError(errno.ENOENT, "No such file or directory", path)
        if not exists and os.path.dirname(path) not in self.dirs:
            raise FileNotFoundError(errno.ENOENT, "No such file or directory", path)
        norm = "rb" if acc == os.O_RDONLY else "r+b"
        if flags & os.O_APPEND:
            norm = "a+b" if acc == os.O_RDWR else "ab"
        hid = self.next_hid
        self.next_hid += 1
        raw = SimRaw(self, path, norm, hid, self.actor)
        if acc == os.O_WRONLY:
            raw._r = False
            if not (flags & os.O_APPEND):
                raw.mode = "wb" if (flags & os.O_TRUNC) or not exists else "r+b"
        created = not exists
        if created:
            self.files[path] = bytearray()
        old = len(self.files[path]) if exists else -1
        if exists and (flags & os.O_TRUNC) and acc != os.O_RDONLY:
            del self.files[path][:]
            created = True
        raw.data = self.files[path]
        if created:
            self.touch(raw.data)
        self.open_handles[hid] = raw
        self.log_event("open", raw, old, 1 if created else 0)
        self.counts["os_open"] = self.counts.get("os_open", 0) + 1
        return FD_BASE + hid

    def raw_of(self, fd):
        raw = self.open_handles.get(fd - FD_BASE)
        if raw is None:
            raise OSError(errno.EBADF, "Bad file descriptor")
        return raw

    def wrap_fd(self, fd, mode="r", buffering=-1):
        raw = self.raw_of(fd)
        if "b" not in mode:
            raise HarnessError(f"text-mode wrapper on a simulated descriptor ({mode!r})")
        if buffering == 0:
            return raw
        bs = self.bufsize if buffering in (-1, None) or buffering == 1 else buffering
        if raw._r and raw._w:
            return io.BufferedRandom(raw, bs)
        if raw._w:
            return io.BufferedWriter(raw, bs)
        return io.BufferedReader(raw, bs)

    def listdir(self, path):
        if path not in self.dirs:
            if path in self.files:
                raise NotADirectoryError(errno.ENOTDIR, "Not a directory", path)
            raise FileNotFoundError(errno.ENOENT, "No such file or directory", path)
        pre = path.rstrip("/") + "/"
        names = {p[len(pre):] for p in list(self.files) + list(self.dirs) if p.startswith(pre) and "/" not in p[len(pre):] and p != path}
        return sorted(n for n in names if n)

    def stat(self, path):
        self.stat_calls += 1
        data = self.files.get(path)
        if data is None:
            if path in self.dirs:
                return os.stat_result((_stat.S_IFDIR | 0o755, 1, 1, 2, 0, 0, 0, 0, 0, 0))
            raise FileNotFoundError(errno.ENOENT, "No such file or directory", path)
        return self.stat_data(data)

    def stat_data(self, data):
        ino = 1000 + (id(data) // 16) % 1000003
        ns = self.mtimes.get(id(data), 0)
        sec = ns // 10**9
        return os.stat_result((_stat.S_IFREG | 0o644, ino, 1, 1, 0, 0, len(data), sec, sec, sec,
                               ns / 1e9, ns / 1e9, ns / 1e9, ns, ns, ns))

    def kill(self, path=None):
        """Process kill: every open handle (on path, or all) stops reaching the disk."""
        n = 0
        for raw in list(self.open_handles.values()):
            if path is None or raw.path == path:
                raw.dead = True
                n += 1
        return n

    def handles_on(self, path):
        return [r for r in self.open_handles.values() if r.path == path and not r.dead]


# ---------------------------------------------------------------------------
# patched entry points


def _sim_open(file, mode="r", buffering=-1, encoding=None, errors=None, newline=None,
              closefd=True, opener=None):
    if _DISK is not None and isinstance(file, int) and not isinstance(file, bool) and file >= FD_BASE:
        return _DISK.wrap_fd(file, mode, buffering)  # os.fdopen / open(fd) on a simulated descriptor
    k = _key(file) if _DISK is not None and not isinstance(file, int) else None
    if k is None:
        return _real_io_open(file, mode, buffering, encoding, errors, newline, closefd, opener)
    if opener is not None:
        fd = opener(file, _flags_of(mode))
        if isinstance(fd, int) and fd >= FD_BASE:
            return _DISK.wrap_fd(fd, mode, buffering)
        raise HarnessError("opener returned a real descriptor for a simulated path")
    return _DISK.open(k, mode, buffering)


def _sim_stat(path, *a, **kw):
    if isinstance(path, int) and path >= FD_BASE and _DISK is not None:
        return _sim_fstat(path)
    k = _key(path) if _DISK is not None and not isinstance(path, int) else None
    if k is None:
        return _real_stat(path, *a, **kw)
    return _DISK.stat(k)


FD_BASE = 1 << 24
_real_fstat = os.fstat


def _sim_fstat(fd):
    if _DISK is not None and isinstance(fd, int) and fd >= FD_BASE:
        raw = _DISK.open_handles.get(fd - FD_BASE)
        if raw is None:
            raise OSError(errno.EBADF, "Bad file descriptor")
        return _DISK.stat_data(raw.data)
    return _real_fstat(fd)


_real_sendfile = getattr(os, "sendfile", None)
_real_lseek = os.lseek


def _sim_sendfile(out_fd, in_fd, offset, count, *a, **kw):
    """shutil.copyfile's fast path, emulated between two simulated descriptors."""
    if _DISK is not None and out_fd >= FD_BASE and in_fd >= FD_BASE:
        src = _DISK.open_handles.get(in_fd - FD_BASE)
        dst = _DISK.open_handles.get(out_fd - FD_BASE)
        if src is None or dst is None:
            raise OSError(errno.EBADF, "Bad file descriptor")
        chunk = bytes(src.data[offset : offset + min(count, 1 << 20)])
        if not chunk:
            return 0
        n = 0
        while n < len(chunk):
            n += dst.write(chunk[n:])
        return n
    if _DISK is not None and (out_fd >= FD_BASE or in_fd >= FD_BASE):
        raise OSError(errno.EINVAL, "Invalid argument")
    return _real_sendfile(out_fd, in_fd, offset, count, *a, **kw)


import mmap as _mmap_mod

_real_mmap = _mmap_mod.mmap


class SimMmap:
    """A shared mapping of a simulated file: a window onto the inode's bytearray.  Writing
    through it changes the file without any write() - exactly what a real MAP_SHARED does."""

    def __init__(self, data, offset, length, writable, disk):
        if offset + length > len(data):
            raise ValueError("mmap length is greater than file size")
        self._mv = memoryview(data)[offset:offset + length]
        if not writable:
            self._mv = self._mv.toreadonly()
        self._disk = disk
        disk.counts["mmap"] = disk.counts.get("mmap", 0) + 1

    def __buffer__(self, flags):
        return self._mv

    def __len__(self):
        return len(self._mv)

    def flush(self, *a):
        return None

    def close(self):
        try:
            self._mv.release()
        except BufferError:
            pass

    @property
    def closed(self):
        return False


def _sim_mmap(fileno, length, *a, **kw):
    if _DISK is not None and isinstance(fileno, int) and fileno >= FD_BASE:
        raw = _DISK.open_handles.get(fileno - FD_BASE)
        if raw is None:
            raise OSError(errno.EBADF, "Bad file descriptor")
        access = kw.get("access", _mmap_mod.ACCESS_DEFAULT)
        offset = kw.get("offset", 0)
        writable = access in (_mmap_mod.ACCESS_WRITE, _mmap_mod.ACCESS_DEFAULT) and raw._w
        if access == _mmap_mod.ACCESS_COPY:
            return memoryview(bytearray(raw.data[offset:offset + (length or len(raw.data) - offset)]))
        return SimMmap(raw.data, offset, length or len(raw.data) - offset, writable, _DISK)
    return _real_mmap(fileno, length, *a, **kw)


_real_fsync = os.fsync
_real_fdatasync = getattr(os, "fdatasync", None)


def _sim_fsync(fd):
    if hasattr(fd, "fileno"):
        fd = fd.fileno()
    if _DISK is not None and isinstance(fd, int) and fd >= FD_BASE:
        if (fd - FD_BASE) not in _DISK.open_handles:
            raise OSError(errno.EBADF, "Bad file descriptor")
        return None  # the simulated disk models visibility, not durability
    return _real_fsync(fd)


def _sim_lseek(fd, pos, how):
    if _DISK is not None and isinstance(fd, int) and fd >= FD_BASE:
        raw = _DISK.open_handles.get(fd - FD_BASE)
        if raw is None:
            raise OSError(errno.EBADF, "Bad file descriptor")
        return raw.seek(pos, how)
    return _real_lseek(fd, pos, how)


def _sim_lstat(path, *a, **kw):
    k = _key(path) if _DISK is not None else None
    if k is None:
        return _real_lstat(path, *a, **kw)
    return _DISK.stat(k)


def _sim_remove(path, *a, **kw):
    k = _key(path) if _DISK is not None else None
    if k is None:
        return _real_remove(path, *a, **kw)
    if k not in _DISK.files:
        raise FileNotFoundError(errno.ENOENT, "No such file or directory", k)
    _DISK.files.pop(k)
    _DISK.seq += 1
    _DISK.events.append((_DISK.seq, "unlink", k, 0, "", _DISK.actor, 0, 0))


def _sim_rename(src, dst, *a, **kw):
    ks = _key(src) if _DISK is not None else None
    kd = _key(dst) if _DISK is not None else None
    if ks is None and kd is None:
        return _real_rename(src, dst, *a, **kw)
    if ks is None:
        # a real file (staged in the system's temporary directory, say) moved onto the simulated disk
        with _real_open(src, "rb") as f:
            data = f.read()
        _real_remove(src)
        _DISK.files[kd] = bytearray(data)
        _DISK.touch(_DISK.files[kd])
        _DISK.seq += 1
        _DISK.events.append((_DISK.seq, "rename", kd, 0, "", _DISK.actor, 0, 0))
        return None
    if kd is None:
        if ks not in _DISK.files:
            raise FileNotFoundError(errno.ENOENT, "No such file or directory", ks)
        with _real_open(dst, "wb") as f:
            f.write(bytes(_DISK.files.pop(ks)))
        _DISK.seq += 1
        _DISK.events.append((_DISK.seq, "unlink", ks, 0, "", _DISK.actor, 0, 0))
        return None
    if ks not in _DISK.files:
        raise FileNotFoundError(errno.ENOENT, "No such file or directory", ks)
    _DISK.files[kd] = _DISK.files.pop(ks)
    _DISK.seq += 1
    _DISK.events.append((_DISK.seq, "rename", kd, 0, "", _DISK.actor, 0, 0))


def _sim_link(src, dst, *a, **kw):
    ks = _key(src) if _DISK is not None else None
    kd = _key(dst) if _DISK is not None else None
    if ks is None and kd is None:
        return _real_link(src, dst, *a, **kw)
    if ks is None or kd is None:
        raise OSError(errno.EXDEV, "Invalid cross-device link")
    if ks not in _DISK.files:
        raise FileNotFoundError(errno.ENOENT, "No such file or directory", ks)
    if kd in _DISK.files:
        raise FileExistsError(errno.EEXIST, "File exists", kd)
    _DISK.files[kd] = _DISK.files[ks]  # one inode, two names
    _DISK.seq += 1
    _DISK.events.append((_DISK.seq, "link", kd, 0, "", _DISK.actor, 0, 0))


def _sim_symlink(src, dst, *a, **kw):
    if _DISK is not None and (_key(src) or _key(dst)):
        return _sim_link(src, dst)
    return _real_symlink(src, dst, *a, **kw)


def _noop_for_sim(real):
    def f(path, *a, **kw):
        k = _key(path) if _DISK is not None and not isinstance(path, int) else None
        if k is None:
            return real(path, *a, **kw)
        if k not in _DISK.files:
            raise FileNotFoundError(errno.ENOENT, "No such file or directory", k)
        return None
    return f


def _sim_mkdir(path, *a, **kw):
    k = _key(path) if _DISK is not None and not isinstance(path, int) else None
    if k is None:
        return _real_mkdir(path, *a, **kw)
    if k in _DISK.dirs or k in _DISK.files:
        raise FileExistsError(errno.EEXIST, "File exists", k)
    if os.path.dirname(k) not in _DISK.dirs:
        raise FileNotFoundError(errno.ENOENT, "No such file or directory", k)
    _DISK.dirs.add(k)


def _sim_access(path, mode, *a, **kw):
    k = _key(path) if _DISK is not None and not isinstance(path, int) else None
    if k is None:
        return _real_access(path, mode, *a, **kw)
    return k in _DISK.files


def _sim_truncate(path, length):
    k = _key(path) if _DISK is not None and not isinstance(path, int) else None
    if k is None:
        return _real_truncate(path, length)
    f = _DISK.open(k, "r+b", 0)
    try:
        f.truncate(length)
    finally:
        f.close()


def _flags_of(mode):
    m = set(mode.replace("b", "").replace("t", ""))
    if "+" in m:
        acc = os.O_RDWR
    elif "r" in m:
        acc = os.O_RDONLY
    else:
        acc = os.O_WRONLY
    if "w" in m:
        acc |= os.O_CREAT | os.O_TRUNC
    if "x" in m:
        acc |= os.O_CREAT | os.O_EXCL
    if "a" in m:
        acc |= os.O_CREAT | os.O_APPEND
    return acc | getattr(os, "O_CLOEXEC", 0)


_real_os_open, _real_os_close, _real_os_read, _real_os_write = os.open, os.close, os.read, os.write
_real_ftruncate, _real_getcwd, _real_listdir, _real_scandir = os.ftruncate, os.getcwd, os.listdir, os.scandir
_real_rmdir, _real_readlink = os.rmdir, os.readlink
_real_pread, _real_pwrite = getattr(os, "pread", None), getattr(os, "pwrite", None)
_real_listxattr = getattr(os, "listxattr", None)
_real_fdopen = os.fdopen


def _is_simfd(fd):
    return _DISK is not None and isinstance(fd, int) and not isinstance(fd, bool) and fd >= FD_BASE


def _sim_os_open(path, flags, mode=0o777, *, dir_fd=None):
    k = _key(path) if _DISK is not None and dir_fd is None else None
    if k is None:
        return _real_os_open(path, flags, mode, dir_fd=dir_fd)
    return _DISK.os_open(k, flags)


def _sim_os_close(fd):
    if _is_simfd(fd):
        return _DISK.raw_of(fd).close()
    return _real_os_close(fd)


def _sim_os_read(fd, n):
    if _is_simfd(fd):
        raw = _DISK.raw_of(fd)
        b = bytearray(n)
        k = raw.readinto(b)
        return bytes(b[:k])
    return _real_os_read(fd, n)


def _sim_os_write(fd, data):
    if _is_simfd(fd):
        return _DISK.raw_of(fd).write(data)
    return _real_os_write(fd, data)


def _sim_pread(fd, n, offset):
    if _is_simfd(fd):
        raw = _DISK.raw_of(fd)
        if not raw._r:
            raise OSError(errno.EBADF, "Bad file descriptor")
        _DISK.n_reads += 1
        return bytes(raw.data[offset:offset + n])
    return _real_pread(fd, n, offset)


def _sim_pwrite(fd, data, offset):
    if _is_simfd(fd):
        raw = _DISK.raw_of(fd)
        save = raw.pos
        try:
            raw.pos = offset
            return raw.write(data)
        finally:
            raw.pos = save
    return _real_pwrite(fd, data, offset)


def _sim_ftruncate(fd, length):
    if _is_simfd(fd):
        _DISK.raw_of(fd).truncate(length)
        return None
    return _real_ftruncate(fd, length)


def _sim_fdopen(fd, mode="r", buffering=-1, *a, **kw):
    if _is_simfd(fd):
        return _DISK.wrap_fd(fd, mode, buffering)
    return _real_fdopen(fd, mode, buffering, *a, **kw)


def _sim_getcwd():
    if _DISK is not None and _DISK.actor != "harness" and _DISK.relative:
        return _DISK.cwd.rstrip("/")  # what the process's working directory is while library code runs
    return _real_getcwd()


def _sim_listdir(path="."):
    k = _key(path) if _DISK is not None and not isinstance(path, int) else None
    if k is None:
        return _real_listdir(path)
    return _DISK.listdir(k)


class _SimDirEntry:
    def __init__(self, d, name):
        self.name, self.path = name, d.rstrip("/") + "/" + name

    def is_dir(self, follow_symlinks=True):
        return self.path in _DISK.dirs

    def is_file(self, follow_symlinks=True):
        return self.path in _DISK.files

    def is_symlink(self):
        return False

    def stat(self, follow_symlinks=True):
        return _DISK.stat(self.path)

    def inode(self):
        return self.stat().st_ino

    def __fspath__(self):
        return self.path


class _SimScandir(list):
    def __enter__(self):
        return self

    def __exit__(self, *a):
        return False

    def close(self):
        pass


def _sim_scandir(path="."):
    k = _key(path) if _DISK is not None and not isinstance(path, int) else None
    if k is None:
        return _real_scandir(path)
    return _SimScandir(_SimDirEntry(k, n) for n in _DISK.listdir(k))


def _sim_rmdir(path, *a, **kw):
    k = _key(path) if _DISK is not None else None
    if k is None:
        return _real_rmdir(path, *a, **kw)
    if k not in _DISK.dirs:
        raise FileNotFoundError(errno.ENOENT, "No such file or directory", k)
    if _DISK.listdir(k):
        raise OSError(errno.ENOTEMPTY, "Directory not empty", k)
    _DISK.dirs.discard(k)


def _sim_readlink(path, *a, **kw):
    k = _key(path) if _DISK is not None else None
    if k is None:
        return _real_readlink(path, *a, **kw)
    if k not in _DISK.files and k not in _DISK.dirs:
        raise FileNotFoundError(errno.ENOENT, "No such file or directory", k)
    raise OSError(errno.EINVAL, "Invalid argument", k)


def _sim_listxattr(path=None, *a, **kw):
    if _is_simfd(path):
        return []
    k = _key(path) if _DISK is not None and path is not None and not isinstance(path, int) else None
    if k is None:
        return _real_listxattr(path, *a, **kw)
    return []


def install(disk):
    """Route /simfs/ paths to `disk` (replaces any previously installed disk)."""
    global _DISK
    _DISK = disk
    if builtins.open is not _sim_open:
        builtins.open = _sim_open
        io.open = _sim_open
        os.stat = _sim_stat
        os.lstat = _sim_lstat
        os.remove = _sim_remove
        os.unlink = _sim_remove
        os.rename = _sim_rename
        os.replace = _sim_rename
        os.truncate = _sim_truncate
        os.link = _sim_link
        os.symlink = _sim_symlink
        os.access = _sim_access
        os.chmod = _noop_for_sim(_real_chmod)
        os.utime = _noop_for_sim(_real_utime)
        os.mkdir = _sim_mkdir
        os.fstat = _sim_fstat
        os.lseek = _sim_lseek
        os.fsync = _sim_fsync
        _mmap_mod.mmap = _sim_mmap
        os.open, os.close, os.read, os.write = _sim_os_open, _sim_os_close, _sim_os_read, _sim_os_write
        os.ftruncate, os.getcwd, os.listdir, os.scandir = _sim_ftruncate, _sim_getcwd, _sim_listdir, _sim_scandir
        os.rmdir, os.readlink, os.fdopen = _sim_rmdir, _sim_readlink, _sim_fdopen
        if _real_pread is not None:
            os.pread, os.pwrite = _sim_pread, _sim_pwrite
        if _real_listxattr is not None:
            os.listxattr = _sim_listxattr
        if _real_fdatasync is not None:
            os.fdatasync = _sim_fsync
        if _real_sendfile is not None:
            os.sendfile = _sim_sendfile


def uninstall():
    global _DISK
    _DISK = None
    builtins.open = _real_open
    io.open = _real_io_open
    os.stat = _real_stat
    os.lstat = _real_lstat
    os.remove = _real_remove
    os.unlink = _real_unlink
    os.rename = _real_rename
    os.replace = _real_replace
    os.truncate = _real_truncate
    os.link = _real_link
    os.symlink = _real_symlink
    os.access = _real_access
    os.chmod = _real_chmod
    os.utime = _real_utime
    os.mkdir = _real_mkdir
    os.fstat = _real_fstat
    os.lseek = _real_lseek
    os.fsync = _real_fsync
    _mmap_mod.mmap = _real_mmap
    os.open, os.close, os.read, os.write = _real_os_open, _real_os_close, _real_os_read, _real_os_write
    os.ftruncate, os.getcwd, os.listdir, os.scandir = _real_ftruncate, _real_getcwd, _real_listdir, _real_scandir
    os.rmdir, os.readlink, os.fdopen = _real_rmdir, _real_readlink, _real_fdopen
    if _real_pread is not None:
        os.pread, os.pwrite = _real_pread, _real_pwrite
    if _real_listxattr is not None:
        os.listxattr = _real_listxattr
    if _real_fdatasync is not None:
        os.fdatasync = _real_fdatasync
    if _real_sendfile is not None:
        os.sendfile = _real_sendfile
