"""Deterministic simulation harness for marnunez/basictdf (see /verif/DESIGN.md)."""
