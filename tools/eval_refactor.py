#!/venv/bin/python
"""tools/eval_refactor.py <dir-with-patch.diff> [runs]: apply a (supposedly behaviour-preserving)
patch to a scratch copy of /repo, run the pinned tests and ALL quick checks against it.
Any VIOLATION is either a false alarm of the machinery or a property the patch really breaks."""
import json
import os
import shutil
import subprocess
import sys
import tempfile

VERIF = os.path.dirname(os.path.dirname(os.path.abspath(__file__)))
PROPS = ["C01", "C02", "C03", "C04", "C05", "C06", "C07", "C08", "C09", "C10", "C11", "C12", "C17", "C15", "C16", "C20"]


def main():
    d = sys.argv[1]
    runs = sys.argv[2] if len(sys.argv) > 2 else "2500"
    if os.path.exists("/tmp/rfres/SHORT"):
        runs = str(min(int(runs), int(open("/tmp/rfres/SHORT").read().strip() or 500)))
    tmp = tempfile.mkdtemp(prefix="verif-refactor-")
    out = {"dir": d}
    try:
        shutil.copytree("/repo/src", os.path.join(tmp, "src"), ignore=shutil.ignore_patterns("__pycache__", "*.egg-info"))
        shutil.copytree("/repo/tests", os.path.join(tmp, "tests"), ignore=shutil.ignore_patterns("__pycache__"))
        r = subprocess.run(["patch", "-p1", "--no-backup-if-mismatch", "-i", os.path.join(d, "patch.diff")],
                           cwd=tmp, capture_output=True, text=True)
        out["patch_applies"] = r.returncode == 0
        if r.returncode:
            out["patch_output"] = (r.stdout + r.stderr)[-400:]
            print(json.dumps(out, indent=1))
            return 1
        env = dict(os.environ, PYTHONPATH=os.path.join(tmp, "src"), PYTHONDONTWRITEBYTECODE="1")
        r = subprocess.run([sys.executable, "-m", "pytest", "-q", "-p", "no:cacheprovider", "--continue-on-collection-errors"],
                           cwd=tmp, env=env, capture_output=True, text=True)
        out["tests"] = (r.stdout.strip().splitlines() or [""])[-1]
        out["checks"] = {}
        for p in PROPS:
            env2 = dict(os.environ, VERIF_REPO_SRC=os.path.join(tmp, "src"), VERIF_NO_EVIDENCE="1")
            r = subprocess.run([os.path.join(VERIF, "check"), p, "--runs", runs if p not in ("C15", "C16", "C20") else str(int(runs) * 3)],
                               env=env2, cwd=VERIF, capture_output=True, text=True)
            if r.returncode != 0:
                lines = [ln.strip() for ln in r.stdout.splitlines() if ln.startswith(("VIOLATION", "  class=", "HARNESS"))]
                out["checks"][p] = {"exit": r.returncode, "lines": [ln[:420] for ln in lines[:4]] or [r.stdout[-500:]]}
                if r.returncode == 2:
                    out["checks"][p]["stderr"] = r.stderr[-2500:]
                # keep the replay for inspection
                for ln in r.stdout.splitlines():
                    if ln.startswith("VIOLATION"):
                        rp = ln.split("replay=")[1].strip()
                        if os.path.exists(rp):
                            dst = os.path.join("/tmp", "fa_" + os.path.basename(d.rstrip("/")) + "_" + os.path.basename(rp))
                            shutil.copy(rp, dst)
        out["all_pass"] = not out["checks"]
        out["runs_per_check"] = int(runs)
        print(json.dumps(out, indent=1))
        return 0
    finally:
        shutil.rmtree(tmp, ignore_errors=True)


if __name__ == "__main__":
    sys.exit(main())
