"""Batch runner: seeds -> runs -> violations -> minimised replay files -> evidence."""
import concurrent.futures as cf
from concurrent.futures.process import BrokenProcessPool
import faulthandler
import hashlib
import json
import multiprocessing as mp
import os
import random
import subprocess
import sys
import time
import traceback
from collections import Counter

from . import gen
from .shrink import shrink, vclass
from .simfs import HarnessError

VERIF = os.path.dirname(os.path.dirname(os.path.abspath(__file__)))
W1_PROPS = ["C01", "C02", "C03", "C04", "C05", "C06", "C07", "C08", "C09", "C10", "C11", "C12", "C17"]
W2_PROPS = ["C15", "C16", "C20"]
CLAIMED = W1_PROPS + W2_PROPS
LEVEL = {p: "exploration" for p in CLAIMED}
LEVEL.update(C07="fault_enumeration", C08="fault_enumeration", C16="fault_enumeration")
RUNS = {"quick": {"W1": 5000, "W2": 20000}, "thorough": {"W1": 120000, "W2": 400000}}
WALL = {"quick": 40.0, "thorough": 330.0}
BASE_SEED = {"quick": 20261002, "thorough": 777000777}
FAULT_KEYS = {
    "C05": ("decodes_under_poison_",), "C07": ("fault_reject_", "fault_hole"), "C08": ("mode_refusals", "fault_exit_by_exception"),
    "C10": ("fault_kill",), "C12": ("fault_scribble", "fault_garbage_dontcare"),
    "C17": ("fault_preexisting_target", "fault_bad_open"), "C15": ("fault_taken_channel", "fault_bad_", "fault_raising_iterator"),
    "C16": ("fault_bad_", "fault_raising_iterator"),
}


def splitmix64(*parts):
    h = hashlib.sha256("/".join(str(p) for p in parts).encode()).digest()
    return int.from_bytes(h[:8], "little")


def engine_of(prop, index=None):
    """C20 also has a container-world facet (two decodes through one Tdf object): every 4th run."""
    if prop == "C20" and index is not None and index % 4 == 3:
        return "W1"
    return "W2" if prop in W2_PROPS else "W1"


def generate(prop, tier, base, index):
    seed = splitmix64(base, prop, index)
    rng = random.Random(seed)
    if engine_of(prop, index) == "W1":
        from . import ops1
        cfg, ops = ops1.gen_run(rng, prop, index, tier)
    else:
        from . import ops2
        cfg, ops = ops2.gen_run(rng, prop, index, tier)
    return seed, cfg, ops


def execute(engine, cfg, ops, focus=None):
    if engine == "W1":
        from .world1 import World
        w = World(cfg, focus)
    else:
        from .world2 import World2
        w = World2(cfg, focus)
    v = w.run(ops)
    return v, w


def relevant(prop, v):
    return v["prop"] == prop or prop in v["also"]


def summarise_op(op):
    out = {}
    for k, v in op.items():
        if k == "C":
            out[k] = _shape(v)
        elif k in ("bases", "blocks"):
            out[k] = [_shape(c) for c in v]
        elif k == "slots":
            out[k] = [None if s is None else (_shape(s["C"]) if "C" in s else f"opaque:{s['code']}:{len(s['bytes'])}B")
                      for s in v]
        elif k == "comment" and isinstance(v, str) and len(v) > 24:
            out[k] = v[:20] + f"..({len(v)})"
        else:
            out[k] = v
    return out


def _shape(C):
    for key in ("tracks", "plats", "chans", "events", "cams"):
        if key in C:
            n = C.get("nFrames", C.get("nSamples"))
            masks = [it["mask"] for it in C[key] if "mask" in it][:3]
            return f"{C['t']}/fmt{C['fmt']}/{len(C[key])}items" + (f"/{n}frames" if n is not None else "") + \
                (f"/masks={masks}" if masks else "")
    return f"{C['t']}/fmt{C['fmt']}/{C.get('nCams')}x{C.get('nFrames')}"


def run_chunk(args):
    """Worker: executes a range of run indices; returns a compact summary."""
    prop, tier, base, indices, deadline = args
    # watchdog for a run that hangs; generous, because one run can take seconds of CPU and the
    # machine may be heavily oversubscribed (a 60 s margin fired under a 9x overload)
    faulthandler.dump_traceback_later(max(60.0, deadline - time.time() + 300), exit=True)
    try:  # a decoder fed a garbage count must hit MemoryError quickly, not swap the machine
        import resource
        resource.setrlimit(resource.RLIMIT_AS, (3 << 30, 3 << 30))
    except Exception:
        pass
    stats = Counter()
    states, transitions = set(), set()
    nontrivial = set()
    masks = set()
    digests = []
    found = []
    other = Counter()
    samples = []
    done = 0
    fkeys = FAULT_KEYS.get(prop)
    for i in indices:
        if time.time() > deadline:
            break
        seed, cfg, ops = generate(prop, tier, base, i)
        engine = engine_of(prop, i)
        try:
            v, w = execute(engine, cfg, ops, prop)
        except HarnessError as e:
            return {"harness_error": f"index {i} seed {seed}: {e!r}\n{traceback.format_exc()}"}
        except Exception as e:
            return {"harness_error": f"index {i} seed {seed}: {e!r}\n{traceback.format_exc()}"}
        done += 1
        stats.update(w.stats)
        stats["runs"] += 1
        states |= {hashlib.md5(repr(s).encode()).digest()[:8] for s in w.states}
        transitions |= {hashlib.md5(repr(s).encode()).digest()[:8] for s in w.transitions}
        masks |= getattr(w, "masks", set())
        d = w.digest()
        digests.append((i, d[:16]))
        changing = w.stats["mutations"] + w.stats["adds"] + w.stats["removes"] + w.stats["assigns"]
        fired = True
        if fkeys:
            fired = any(n > 0 for k, n in w.stats.items() if k.startswith(fkeys))
        if changing >= 2 and fired:
            nontrivial.add(hashlib.md5(json.dumps(gen.to_json(ops), sort_keys=True, default=repr).encode()).digest()[:8])
        mine = [x for x in v if relevant(prop, x)]
        if mine:
            if len(found) < 3:
                found.append({"index": i, "seed": seed, "engine": engine, "cfg": cfg, "ops": gen.to_json(ops), "violations": mine})
            stats["runs_with_violation"] += 1
        elif v:
            other[v[0]["prop"]] += 1
        if len(samples) < 2 and changing >= 2 and not v:
            samples.append({"index": i, "seed": seed, "config": cfg, "ops": [summarise_op(o) for o in ops][:40]})
    faulthandler.cancel_dump_traceback_later()
    return {"stats": stats, "states": states, "transitions": transitions, "nontrivial": nontrivial,
            "digests": digests, "found": found, "other": other, "samples": samples, "done": done, "masks": masks}


def load_known():
    p = os.path.join(VERIF, "known_findings.json")
    if not os.path.exists(p):
        return []
    with open(p) as f:
        return json.load(f)


def match_known(known, prop, v):
    for k in known:
        if k.get("status") != "open" or k["property"] != prop:
            continue
        sig = k["signature"]
        if sig.get("tag") in (None, v["tag"]) and sig.get("op") in (None, v["op"]) and \
                v["pattern"].startswith(sig.get("pattern", "")):
            return k
    return None


def batch(prop, tier, base, nruns, wall, jobs):
    """Run up to nruns simulated runs within wall seconds on `jobs` processes."""
    t0 = time.time()
    deadline = t0 + wall
    chunk = 40 if engine_of(prop) == "W1" else 150
    tasks = [(prop, tier, base, list(range(s, min(s + chunk, nruns))), deadline) for s in range(0, nruns, chunk)]
    agg = {"stats": Counter(), "states": set(), "transitions": set(), "nontrivial": set(), "digests": [],
           "found": [], "other": Counter(), "samples": [], "done": 0, "masks": set()}
    ctx = mp.get_context("fork")
    with cf.ProcessPoolExecutor(max_workers=jobs, mp_context=ctx) as ex:
        futs = [ex.submit(run_chunk, t) for t in tasks]
        try:
            for fu in cf.as_completed(futs, timeout=wall + 420):
                r = fu.result()
                if "harness_error" in r:
                    for f2 in futs:
                        f2.cancel()
                    raise HarnessError(r["harness_error"])
                agg["stats"].update(r["stats"])
                agg["other"].update(r["other"])
                agg["states"] |= r["states"]
                agg["transitions"] |= r["transitions"]
                agg["nontrivial"] |= r["nontrivial"]
                agg["masks"] |= r.get("masks", set())
                agg["digests"].extend(r["digests"])
                agg["found"].extend(r["found"])
                agg["done"] += r["done"]
                if len(agg["samples"]) < 3:
                    agg["samples"].extend(r["samples"])
        except cf.TimeoutError:
            raise HarnessError("worker pool timed out (a worker hung or died)")
        except BrokenProcessPool:
            raise HarnessError("a worker process died (watchdog after a hung run, or killed from outside)")
    agg["wall"] = time.time() - t0
    return agg


def replay_fixed(known, prop):
    """A 'fixed' entry suppresses nothing: its minimised history is re-executed on every run of
    the property's check and reported again if the violation has come back."""
    out = []
    for k in known:
        if k.get("status") != "fixed" or k["property"] != prop or not k.get("replay"):
            continue
        path = os.path.join(VERIF, k["replay"])
        if not os.path.exists(path):
            continue
        with open(path) as f:
            rec = json.load(f)
        vs, _w = execute(rec["engine"], rec["config"], gen.from_json(rec["ops"]), prop)
        target = tuple(rec["class"])
        if any(vclass(x) == target for x in vs):
            out.append((path, target))
    return out


def minimise_and_write(prop, tier, item):
    """Shrink one failing run, write the replay file, verify it in a fresh interpreter."""
    engine = item.get("engine") or engine_of(prop, item["index"])
    cfg, ops = item["cfg"], gen.from_json(item["ops"])
    v0 = item["violations"][0]
    target = vclass(v0)

    def ex(c, o):
        return execute(engine, c, o, prop)[0]
    c2, o2, nexec = shrink(ex, cfg, ops, target, step=v0.get("step"))
    # pin the one rejection cause that failed, so that the replay does not depend on what else the
    # enumeration contains in a later version of the harness
    cause = v0["detail"].get("cause") if isinstance(v0.get("detail"), dict) else None
    if cause and o2 and o2[-1].get("op") == "reject_all" and not o2[-1].get("only"):
        cand = o2[:-1] + [dict(o2[-1], only=[cause])]
        try:
            if any(vclass(x) == target for x in ex(c2, cand)):
                o2 = cand
        except Exception:
            pass
    vs, w = execute(engine, c2, o2, prop)
    vm = next((x for x in vs if vclass(x) == target), None)
    if vm is None:  # shrinking lost it (should not happen): fall back to the original
        c2, o2 = cfg, ops
        vs, w = execute(engine, c2, o2, prop)
        vm = next((x for x in vs if vclass(x) == target), None)
        if vm is None:
            raise HarnessError(f"violation {target} of seed {item['seed']} does not reproduce in-process")
    os.makedirs(os.path.join(VERIF, "replays"), exist_ok=True)
    # the tree is part of the name: checks of different trees may run at the same time
    path = os.path.join(VERIF, "replays", f"{prop}-{item['seed']}-{tree_id()[:8]}{'-O' if sys.flags.optimize else ''}.json")
    rec = {"engine": engine, "property": prop, "seed": item["seed"], "index": item["index"], "tier": tier,
           "config": c2, "ops": gen.to_json(o2), "violation": json.loads(json.dumps(vm, default=repr)),
           "class": list(target), "digest": w.digest(), "original_len": len(ops), "minimised_len": len(o2),
           "shrink_executions": nexec, "tree": tree_id(), "pyopt": bool(sys.flags.optimize)}
    tmp_path = f"{path}.{os.getpid()}.tmp"
    with open(tmp_path, "w") as f:
        json.dump(rec, f, indent=1, default=repr)
    os.replace(tmp_path, path)
    # replay in a fresh interpreter must reproduce the same class and digest
    r = subprocess.run([sys.executable, os.path.join(VERIF, "check"), "replay", path, "--quiet"],
                       capture_output=True, text=True, timeout=300)
    if r.returncode != 1 or rec["digest"] not in r.stdout:
        raise HarnessError(f"replay of {path} did not reproduce in a fresh interpreter "
                           f"(exit {r.returncode}): {r.stdout[-400:]} {r.stderr[-400:]}")
    return path, rec


def tree_id():
    h = hashlib.sha256()
    src = os.path.join(os.environ.get("VERIF_REPO_SRC", "/repo/src"), "basictdf")
    for n in sorted(os.listdir(src)):
        if n.endswith(".py"):
            with open(os.path.join(src, n), "rb") as f:
                h.update(n.encode() + f.read())
    return h.hexdigest()[:16]


def replay(path, quiet=False):
    with open(path) as f:
        rec = json.load(f)
    if rec.get("pyopt") and not sys.flags.optimize:
        # found with `python -O` (assert statements compiled away): replay it that way
        os.execv(sys.executable, [sys.executable, "-O", os.path.join(VERIF, "check"), "replay", path]
                 + (["--quiet"] if quiet else []))
    cfg, ops = rec["config"], gen.from_json(rec["ops"])
    vs, w = execute(rec["engine"], cfg, ops, rec.get("property"))
    target = tuple(rec["class"])
    hit = next((x for x in vs if vclass(x) == target), None)
    if not quiet:
        for i, op in enumerate(ops):
            print(f"  step {i}: {json.dumps(summarise_op(op), default=repr)[:300]}")
    if hit:
        print(f"REPRODUCED property={rec['property']} class={list(target)} digest={w.digest()}")
        print("  " + json.dumps(hit, default=repr)[:1200])
        return 1
    if vs:
        print(f"DIFFERENT violation(s): {json.dumps(vs, default=repr)[:800]} digest={w.digest()}")
        return 3
    print(f"NOT REPRODUCED (no violation on this tree) digest={w.digest()}")
    return 0


def pyopt_subcheck(prop, tier, base, nruns, wall, jobs):
    """A share of the runs under `python -O` (an interpreter mode like any other: assert statements
    are compiled away, __debug__ is False).  A child interpreter runs the same check on other
    seeds; its VIOLATION lines and replay files (which replay under -O) are passed on."""
    if sys.flags.optimize or os.environ.get("VERIF_NO_PYOPT"):
        return None
    n = max(nruns // 8, 50)
    env = dict(os.environ, VERIF_NO_EVIDENCE="1", VERIF_SEED=str(base + 1), VERIF_TIER=tier)
    env.pop("VERIF_RUNS", None)
    env.pop("VERIF_BUDGET_S", None)
    cmd = [sys.executable, "-O", os.path.join(VERIF, "check"), prop, "--tier", tier, "--runs", str(n),
           "--wall", str(max(wall / 5, 5)), "--jobs", str(jobs)]
    try:
        r = subprocess.run(cmd, env=env, capture_output=True, text=True, timeout=wall + 600)
    except subprocess.TimeoutExpired:
        raise HarnessError("the python -O sub-check did not come back")
    if r.returncode == 2 or r.returncode not in (0, 1):
        raise HarnessError("python -O sub-check: " + (r.stdout[-600:] + r.stderr[-300:]))
    out = {"rc": r.returncode, "lines": [], "replays": [], "runs": 0}
    for ln in r.stdout.splitlines():
        if ln.startswith("VIOLATION"):
            out["lines"].append(ln)
            out["replays"].append(ln.split("replay=")[1].strip())
        elif ln.startswith("  class="):
            out["lines"].append(ln + "  [python -O]")
        elif " runs=" in ln and "->" in ln:
            try:
                out["runs"] = int(ln.split(" runs=")[1].split()[0])
            except ValueError:
                pass
    return out


def check(prop, tier, seed=None, nruns=None, wall=None, jobs=None):
    t0 = time.time()
    engine = engine_of(prop)
    base = BASE_SEED[tier] if seed is None else seed
    nruns = nruns or int(os.environ.get("VERIF_RUNS", 0)) or RUNS[tier][engine]
    wall = wall or float(os.environ.get("VERIF_BUDGET_S", 0)) or WALL[tier]
    jobs = jobs or int(os.environ.get("VERIF_JOBS", 0)) or min(16, os.cpu_count() or 4)
    print(f"[{prop}] engine={engine} tier={tier} VERIF_SEED={base} runs<={nruns} wall<={wall:.0f}s jobs={jobs} tree={tree_id()}")
    agg = batch(prop, tier, base, nruns, wall, jobs)
    opt = pyopt_subcheck(prop, tier, base, nruns, wall, jobs)
    known = load_known()
    new, knownhits = [], {}
    for item in sorted(agg["found"], key=lambda x: x["index"]):
        v = item["violations"][0]
        k = match_known(known, prop, v)
        if k:
            knownhits.setdefault(k["what"], item)
        else:
            new.append(item)
    lines = []
    rc_ = 0
    regress = replay_fixed(known, prop)
    for what in knownhits:
        lines.append(f"KNOWN-FINDING: property={prop} {what}")
    replay_paths = []
    seen_classes = set()
    for item in new:
        c = vclass(item["violations"][0])
        if c in seen_classes or len(replay_paths) >= 2:
            continue
        seen_classes.add(c)
        path, rec = minimise_and_write(prop, tier, item)
        replay_paths.append(path)
        lines.append(f"VIOLATION property={prop} replay={path}")
        lines.append(f"  class={list(c)} seed={item['seed']} ops {rec['original_len']}->{rec['minimised_len']} "
                     f"detail={json.dumps(rec['violation'].get('detail'), default=repr)[:300]}")
        rc_ = 1
    for path, target in regress:
        lines.append(f"VIOLATION property={prop} replay={path}")
        lines.append(f"  class={list(target)} (a finding recorded as fixed reproduces again)")
        replay_paths.append(path)
        rc_ = 1
    if opt and opt["rc"] == 1:
        lines.extend(opt["lines"])
        replay_paths.extend(opt["replays"])
        rc_ = 1
    agg["stats"]["runs_under_python_O"] = opt["runs"] if opt else 0
    write_evidence(prop, tier, base, agg, time.time() - t0, len(new) + len(regress) + (len(opt["replays"]) if opt else 0),
                   list(knownhits), replay_paths)
    for ln in lines:
        print(ln)
    st = agg["stats"]
    if sum(agg["other"].values()) * 4 > max(agg["done"], 1):
        print(f"[{prop}] NOTE: {sum(agg['other'].values())} of {agg['done']} runs met a violation of another property "
              f"first ({dict(sorted(agg['other'].items()))}): little of this property's own ground was covered - run those checks")
    print(f"[{prop}] runs={agg['done']} ops={st['ops']} mutations={st['mutations'] + st['adds']} "
          f"violating_runs={st['runs_with_violation']} stopped_by_other={sum(agg['other'].values())} "
          f"nontrivial={len(agg['nontrivial'])} states={len(agg['states'])} wall={time.time() - t0:.1f}s "
          f"-> {'PASS' if rc_ == 0 else 'FAIL'}")
    return rc_


REAL = ["all of basictdf (src/basictdf/*.py)", "numpy", "CPython io.BufferedReader/BufferedWriter/BufferedRandom",
        "pathlib.Path.exists/open/stat", "shutil.copyfile", "struct / datetime conversions incl. the tz database"]
STUB = ["kernel file layer -> SimRaw/SimDisk (in-memory, with raw-level log, short I/O and kill)",
        "os.stat/lstat/remove/rename/truncate for /simfs/ paths", "wall clock -> SimClock via the modules' datetime.now()",
        "contents of fresh numpy.empty allocations -> poison patterns"]


def write_evidence(prop, tier, base, agg, wall, nviol, knownhits, replay_paths):
    if os.environ.get("VERIF_NO_EVIDENCE"):
        return
    st = agg["stats"]
    engine = engine_of(prop)
    faults = {k: n for k, n in sorted(st.items()) if k.startswith("fault_") or k.startswith("decodes_under_poison")
              or k in ("mode_refusals", "rejections", "poisoned_allocs", "raw_discard")}
    probes = {k: n for k, n in sorted(st.items()) if k.startswith(("probe_", "ctx_", "matrix_mode_", "foreign_", "c02_",
                                                                   "create_", "decoded_", "auto_", "bulk_", "capture_", "reputs", "copies", "reject_all_points",
                                                                   "edit_restore_", "badtext_", "ops_while_", "assign_as_", "same_size_",
                                                                   "read_twice", "observer_", "allow_write_inside", "unstamped_", "runs_under_", "odd_blocks_",
                                                                   "replace_by_", "enter_stopped", "not_judged", "bad_item_with", "create_other"))}
    rule = ("cases = simulated runs: a seeded swarm configuration (buffer size, short raw I/O, allocator poison, time zone, "
            "clock epoch/steps) plus an explicit operation list executed against the real library on the simulated disk; "
            "a run is counted non-trivial when it performed >= 2 successful state-changing operations"
            + (" and >= 1 fault of this property's kind actually fired" if prop in FAULT_KEYS else "")
            + "; distinct = distinct digests of the operation list")
    ev = {
        "property_id": prop, "tier": tier, "seed": base, "level": LEVEL[prop], "wall_s": round(wall, 2),
        "violations": nviol,
        "coverage": {
            "evaluations": agg["done"], "distinct_nontrivial": len(agg["nontrivial"]), "rule": rule,
            "samples": agg["samples"][:2] or [{"note": "no clean run with >= 2 mutations in this batch"}],
            "engine": engine, "operations_executed": st["ops"], "successful_mutations": st["mutations"] + st["adds"] + st["removes"] + st["assigns"],
            "runs_per_hour": int(agg["done"] / max(wall, 1e-6) * 3600),
            "seeds_per_hour": int(agg["done"] / max(wall, 1e-6) * 3600),
            "simulated_seconds_covered": st["sim_seconds"],
            "faults_fired": faults, "probes": probes,
            "abstract_states": len(agg["states"]), "abstract_transitions": len(agg["transitions"]),
            "state_measure": "W1: (table length, tuple of slot types in table order, inside-context, armed, context-writable); "
                             "W2: (class, number of items); transitions = (state, call, outcome)",
            "readbacks": st["readbacks"], "reader_calls": st["reader_calls"], "raw_io": {k: n for k, n in st.items() if k.startswith("raw_")},
            "runs_with_violation": st["runs_with_violation"], "stopped_by_other_property": dict(agg["other"]),
            "known_findings_reconfirmed": knownhits, "replays": replay_paths,
            "presence_masks_covered": mask_coverage(agg.get("masks", set())),
            "real_components": REAL, "stubbed_components": STUB, "tree": tree_id(),
        },
        "assumptions": ["the reference codec (simtdf/refcodec.py) is a correct reading of the TDF layout",
                        "seeded search samples histories; a clean batch is evidence, not proof",
                        "faults are placed at operation boundaries only (see DESIGN.md section 4)"],
    }
    os.makedirs(os.path.join(VERIF, "evidence"), exist_ok=True)
    with open(os.path.join(VERIF, "evidence", f"{prop}.json"), "w") as f:
        json.dump(ev, f, indent=1, default=repr)


def mask_coverage(masks):
    """Per track kind and frame count n <= 10: how many of the 2^n presence masks were stored."""
    out = {}
    for kind, m in masks:
        out.setdefault(kind, Counter())[len(m)] += 1
    return {k: {f"n={n}": f"{c}/{2 ** n}" for n, c in sorted(v.items()) if n} for k, v in sorted(out.items())}


def digests(prop, tier, base, n):
    out = []
    for i in range(n):
        seed, cfg, ops = generate(prop, tier, base, i)
        v, w = execute(engine_of(prop, i), cfg, ops, prop)
        out.append(w.digest()[:16] + ":" + ",".join(sorted({x["pattern"] for x in v})))
    return out
