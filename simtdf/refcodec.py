"""Independent, struct-based reference codec for the TDF container and the nine
block types the library can write.  Written from the layout table in DESIGN.md
(Appendix A); shares no code with /repo/src.

Canonical content ("C") of a block is a plain dict of ints, strs, lists and
``bytes`` (float fields are kept as their little-endian on-disk bytes so that
comparisons are bit-for-bit at on-disk width):

  data3d : t, fmt(1|2), nFrames, freq, start(4B), flag, vol(12B), rot(36B), trans(12B),
           links [[a,b],..] (fmt 1), tracks [{label, mask '0101..', data 12B*present}]
  emg    : t, fmt 1, nSamples, freq, start, tracks [{ch, label, mask, data 4B*present}]
  ft     : t, fmt 1, nFrames, freq, start, vol, rot, trans, tracks [{label, mask, data 36B*present}]
  fpdata : t, fmt 1, nFrames, freq, start, plats [{ch, mask, data 24B*present}]
  fpcal  : t, fmt 2, plats [{ch, label, size 8B, pos 48B}]
  data2d : t, fmt 2, nCams, nFrames, freq, start, flags, camMap [..], cells [[bytes|None]*nCams]*nFrames
  calib  : t, fmt(1|2), model, vol, rot, trans, map [..], cams [{R 72B, T 24B, focus 16B, center 16B,
           (fmt 1) radial, decent, prism 16B each | (fmt 2) xd 560B, yd 560B, vp [ox,oy,sx,sy]}]
  optical: t, fmt 1, chans [{idx, lens, type, name, vp [ox,oy,sx,sy]}]
  events : t, fmt 1, start, events [{label, kind(0|1), values 4B*n}]
"""
import struct

SIGNATURE = bytes([0x82, 0x4B, 0x60, 0x41, 0xD3, 0x11, 0x84, 0xCA, 0x60, 0x00, 0xB6, 0xAC,
                   0x16, 0x68, 0x0C, 0x08])
HEADER = 64
ENTRY = 288

TYPE_CODE = {"calib": 2, "data2d": 4, "data3d": 5, "optical": 6, "fpcal": 7, "fpdata": 9,
             "emg": 11, "ft": 12, "events": 16}
CODE_TYPE = {v: k for k, v in TYPE_CODE.items()}
# block types the library has no decoder for (used as opaque payloads)
OPAQUE_CODES = [1, 3, 8, 10, 13, 14, 15]


class LayoutError(Exception):
    pass


# ---------------------------------------------------------------------------
# primitives


def enc_str(width, s, full_ok=False):
    b = s.encode("cp1252")
    if b"\x00" in b or len(b) > width or (len(b) == width and not full_ok):
        raise LayoutError(f"string does not fit s[{width}]")
    return b + b"\x00" * (width - len(b))


class AnyText(str):
    """Text of a field that holds a byte windows-1252 does not define (0x81 0x8d 0x8f 0x90
    0x9d): no reading of it is more right than another, so it compares equal to anything."""

    def __eq__(self, other):
        return True

    def __ne__(self, other):
        return False

    __hash__ = str.__hash__


UNDEFINED_CP1252 = (0x81, 0x8D, 0x8F, 0x90, 0x9D)


class Rd:
    """Cursor over bytes that records don't-care ranges and strictness failures."""

    def __init__(self, data, base=0, strict=False):
        self.d = data
        self.p = 0
        self.base = base
        self.strict = strict
        self.dc = []  # (start, end) absolute (base + offset) don't-care ranges
        self.noncanon = []  # strictness problems (only meaningful for library-written bytes)

    def take(self, n):
        if n < 0 or self.p + n > len(self.d):
            raise LayoutError(f"need {n} bytes at {self.p}, have {len(self.d) - self.p}")
        b = bytes(self.d[self.p : self.p + n])
        self.p += n
        return b

    def i32(self):
        return struct.unpack("<i", self.take(4))[0]

    def u32(self):
        return struct.unpack("<I", self.take(4))[0]

    def i16s(self, n):
        return list(struct.unpack(f"<{n}h", self.take(2 * n)))

    def u16s(self, n):
        return list(struct.unpack(f"<{n}H", self.take(2 * n)))

    def pad(self, n):
        s = self.p
        b = self.take(n)
        self.dc.append((self.base + s, self.base + s + n))
        if any(b):
            self.noncanon.append(("pad", s))

    def string(self, width, lenient=False):
        s = self.p
        b = self.take(width)
        z = b.find(b"\x00")
        if z < 0:
            self.noncanon.append(("unterminated", s))
            txt = b
        else:
            txt = b[:z]
            if z + 1 < width:
                self.dc.append((self.base + s + z + 1, self.base + s + width))
                if any(b[z + 1 :]):
                    self.noncanon.append(("tail", s))
        try:
            return txt.decode("cp1252")
        except UnicodeDecodeError:
            if lenient:
                return AnyText(txt.decode("cp1252", "replace"))
            raise LayoutError(f"text field at {self.base + s} is not cp1252")


def _runs(mask):
    runs = []
    i, n = 0, len(mask)
    while i < n:
        if mask[i] == "1":
            j = i
            while j < n and mask[j] == "1":
                j += 1
            runs.append((i, j - i))
            i = j
        else:
            i += 1
    return runs


RUN_ORDER = {"shuffle": None}  # set to a permutation function by a foreign writer (see encode(order=))


def enc_segmented(mask, data, rec):
    runs = _runs(mask)
    if RUN_ORDER.get("split"):
        # another writer's run table: a stretch of present frames stored as two runs that touch
        runs2 = []
        for s0, n0 in runs:
            if n0 >= 2:
                k = 1 + (s0 + n0) % (n0 - 1)
                runs2 += [(s0, k), (s0 + k, n0 - k)]
            else:
                runs2.append((s0, n0))
        runs = runs2
    if len(data) != rec * mask.count("1"):
        raise LayoutError("data length does not match mask")
    blobs, p = [], 0
    for s, n in runs:
        blobs.append(data[p : p + rec * n])
        p += rec * n
    order = list(range(len(runs)))
    if RUN_ORDER["shuffle"] is not None and len(runs) > 1:
        order = RUN_ORDER["shuffle"](order)
    out = [struct.pack("<ii", len(runs), 0)]
    for k in order:
        out.append(struct.pack("<ii", *runs[k]))
    for k in order:
        out.append(blobs[k])
    return b"".join(out)


def dec_segmented(r, nframes, rec):
    """Returns (mask, data, runs).  Structural run problems are reported in r.noncanon
    with kind 'runs' (C05): empty, out of order, overlapping, touching, out of range."""
    nseg = r.i32()
    r.pad(4)
    if nseg < 0:
        raise LayoutError("negative segment count")
    runs = [struct.unpack("<ii", r.take(8)) for _ in range(nseg)]
    present = [False] * nframes
    vals = {}
    prev_end = None
    for s, n in runs:
        if n <= 0:
            r.noncanon.append(("runs", "empty"))
        if s < 0 or s + n > nframes:
            r.noncanon.append(("runs", "range"))
            raise LayoutError("segment outside the frame range")
        if prev_end is not None:
            if s < prev_end:
                r.noncanon.append(("runs", "order/overlap"))
            elif s == prev_end:
                r.noncanon.append(("runs", "touching"))
        prev_end = s + n
        blob = r.take(rec * n)
        for k in range(n):
            present[s + k] = True
            vals[s + k] = blob[rec * k : rec * (k + 1)]
    mask = "".join("1" if p else "0" for p in present)
    data = b"".join(vals[i] for i in range(nframes) if present[i])
    return mask, data, runs


# ---------------------------------------------------------------------------
# blocks


def encode(C, run_order=None, split_runs=False):
    """run_order: None = canonical (ascending runs); a function list->list = the order in which a
    foreign writer lists the runs of each track (the format does not prescribe one)."""
    RUN_ORDER["split"] = split_runs
    if run_order is not None:
        RUN_ORDER["shuffle"] = run_order
        try:
            return encode(C, split_runs=split_runs)
        finally:
            RUN_ORDER["shuffle"] = None
    t = C["t"]
    o = []
    if t == "data3d":
        o.append(struct.pack("<ii", C["nFrames"], C["freq"]) + C["start"]
                 + struct.pack("<I", len(C["tracks"])) + C["vol"] + C["rot"] + C["trans"]
                 + struct.pack("<I", C["flag"]))
        if C["fmt"] == 1:
            links = C.get("links", [])
            o.append(struct.pack("<ii", len(links), 0))
            for a, b in links:
                o.append(struct.pack("<II", a, b))
        elif C["fmt"] != 2:
            raise LayoutError("3D format")
        for tr in C["tracks"]:
            o.append(enc_str(256, tr["label"]))
            o.append(enc_segmented(tr["mask"], tr["data"], 12))
    elif t == "emg":
        o.append(struct.pack("<ii", len(C["tracks"]), C["freq"]) + C["start"]
                 + struct.pack("<i", C["nSamples"] - 49))
        o.append(struct.pack(f"<{len(C['tracks'])}h", *[tr["ch"] for tr in C["tracks"]]))
        for tr in C["tracks"]:
            o.append(enc_str(256, tr["label"]))
            o.append(enc_segmented(tr["mask"], tr["data"], 4))
    elif t == "ft":
        o.append(struct.pack("<ii", len(C["tracks"]), C["freq"]) + C["start"]
                 + struct.pack("<I", C["nFrames"]) + C["vol"] + C["rot"] + C["trans"]
                 + b"\x00" * 4)
        for tr in C["tracks"]:
            o.append(enc_str(256, tr["label"]))
            o.append(enc_segmented(tr["mask"], tr["data"], 36))
    elif t == "fpdata":
        o.append(struct.pack("<ii", len(C["plats"]), C["freq"]) + C["start"]
                 + struct.pack("<i", C["nFrames"]))
        o.append(struct.pack(f"<{len(C['plats'])}H", *[p["ch"] for p in C["plats"]]))  # this map is unsigned
        for p in C["plats"]:
            o.append(enc_segmented(p["mask"], p["data"], 24))
    elif t == "fpcal":
        o.append(struct.pack("<ii", len(C["plats"]), 0))
        o.append(struct.pack(f"<{len(C['plats'])}h", *[p["ch"] for p in C["plats"]]))
        for p in C["plats"]:
            o.append(enc_str(256, p["label"]) + p["size"] + p["pos"] + b"\x00" * 256)
    elif t == "data2d":
        nc, nf = C["nCams"], C["nFrames"]
        o.append(struct.pack("<iii", nc, nf, C["freq"]) + C["start"] + struct.pack("<I", C["flags"]))
        o.append(struct.pack(f"<{nc}h", *C["camMap"]))
        counts = []
        for cam in range(nc):
            for fr in range(nf):
                cell = C["cells"][fr][cam]
                counts.append(0 if cell is None else len(cell) // 8)
        o.append(struct.pack(f"<{nc * nf}H", *counts))
        for fr in range(nf):
            for cam in range(nc):
                cell = C["cells"][fr][cam]
                if cell is not None:
                    o.append(cell)
    elif t == "calib":
        o.append(struct.pack("<ii", len(C["cams"]), C["model"]) + C["vol"] + C["rot"] + C["trans"])
        o.append(struct.pack(f"<{len(C['cams'])}h", *C["map"]))
        for c in C["cams"]:
            o.append(c["R"] + c["T"] + c["focus"] + c["center"])
            if C["fmt"] == 1:
                o.append(c["radial"] + c["decent"] + c["prism"])
            elif C["fmt"] == 2:
                o.append(c["xd"] + c["yd"])
            else:
                raise LayoutError("calibration format")
            o.append(struct.pack("<4i", *c["vp"]))
    elif t == "optical":
        o.append(struct.pack("<ii", len(C["chans"]), 0))
        for c in C["chans"]:
            # (a foreign writer may fill these three fields to the last byte)
            o.append(struct.pack("<ii", c["idx"], 0) + enc_str(32, c["lens"], True)
                     + enc_str(32, c["type"], True) + enc_str(32, c["name"], True)
                     + struct.pack("<4i", *c["vp"]))
    elif t == "events":
        o.append(struct.pack("<i", len(C["events"])) + C["start"])
        for e in C["events"]:
            o.append(enc_str(256, e["label"]) + struct.pack("<Ii", e["kind"], len(e["values"]) // 4)
                     + e["values"])
    else:
        raise LayoutError(f"unknown block kind {t}")
    return b"".join(o)


def decode(code, fmt, data, base=0):
    """`_decode`, with a count that no payload of this size can hold (a garbage frame or item
    count: allocation fails) reported as what it is - a malformed layout, not a harness failure."""
    try:
        return _decode(code, fmt, data, base)
    except (MemoryError, OverflowError) as ex:
        raise LayoutError(f"a count field is absurd for a payload of {len(data)} bytes ({type(ex).__name__})")


def _decode(code, fmt, data, base=0):
    """Decode one block payload.  Returns (C, reader); reader.p == len(data) is asserted
    (every byte accounted for); reader.dc lists don't-care ranges, reader.noncanon the
    places where the bytes are not what a canonical writer emits."""
    t = CODE_TYPE.get(code)
    r = Rd(data, base)
    if t == "data3d":
        if fmt not in (1, 2):
            raise LayoutError("3D format")
        nF, fq = r.i32(), r.i32()
        st = r.take(4)
        nT = r.u32()
        C = {"t": t, "fmt": fmt, "nFrames": nF, "freq": fq, "start": st,
             "vol": r.take(12), "rot": r.take(36), "trans": r.take(12), "flag": r.u32()}
        if fmt == 1:
            nL = r.i32()
            r.pad(4)
            C["links"] = [list(struct.unpack("<II", r.take(8))) for _ in range(nL)]
        C["tracks"] = []
        for _ in range(nT):
            lab = r.string(256)
            m, d, _runs_ = dec_segmented(r, nF, 12)
            C["tracks"].append({"label": lab, "mask": m, "data": d})
    elif t == "emg":
        if fmt != 1:
            raise LayoutError("EMG format")
        nS, fq = r.i32(), r.i32()
        st = r.take(4)
        n = r.i32() + 49
        chs = r.i16s(nS)
        C = {"t": t, "fmt": 1, "nSamples": n, "freq": fq, "start": st, "tracks": []}
        for k in range(nS):
            lab = r.string(256)
            m, d, _runs_ = dec_segmented(r, n, 4)
            C["tracks"].append({"ch": chs[k], "label": lab, "mask": m, "data": d})
    elif t == "ft":
        if fmt != 1:
            raise LayoutError("force/torque format")
        nT, fq = r.i32(), r.i32()
        st = r.take(4)
        nF = r.u32()
        C = {"t": t, "fmt": 1, "nFrames": nF, "freq": fq, "start": st,
             "vol": r.take(12), "rot": r.take(36), "trans": r.take(12), "tracks": []}
        r.pad(4)
        for _ in range(nT):
            lab = r.string(256)
            m, d, _runs_ = dec_segmented(r, nF, 36)
            C["tracks"].append({"label": lab, "mask": m, "data": d})
    elif t == "fpdata":
        if fmt != 1:
            raise LayoutError("platform data format")
        nP, fq = r.i32(), r.i32()
        st = r.take(4)
        nF = r.i32()
        chs = r.u16s(nP)
        C = {"t": t, "fmt": 1, "nFrames": nF, "freq": fq, "start": st, "plats": []}
        for k in range(nP):
            m, d, _runs_ = dec_segmented(r, nF, 24)
            C["plats"].append({"ch": chs[k], "mask": m, "data": d})
    elif t == "fpcal":
        if fmt != 2:
            raise LayoutError("platform calibration format")
        nP = r.i32()
        r.pad(4)
        chs = r.i16s(nP)
        C = {"t": t, "fmt": 2, "plats": []}
        for k in range(nP):
            lab = r.string(256)
            size = r.take(8)
            pos = r.take(48)
            r.pad(256)
            C["plats"].append({"ch": chs[k], "label": lab, "size": size, "pos": pos})
    elif t == "data2d":
        if fmt != 2:
            raise LayoutError("2D format")
        nc, nf, fq = r.i32(), r.i32(), r.i32()
        st = r.take(4)
        fl = r.u32()
        cm = r.i16s(nc)
        counts = r.u16s(nc * nf)
        cells = [[None] * nc for _ in range(nf)]
        for fr in range(nf):
            for cam in range(nc):
                k = counts[cam * nf + fr]
                if k:
                    cells[fr][cam] = r.take(8 * k)
        C = {"t": t, "fmt": 2, "nCams": nc, "nFrames": nf, "freq": fq, "start": st,
             "flags": fl, "camMap": cm, "cells": cells}
    elif t == "calib":
        if fmt not in (1, 2):
            raise LayoutError("calibration format")
        nC, model = r.i32(), r.i32()
        C = {"t": t, "fmt": fmt, "model": model, "vol": r.take(12), "rot": r.take(36),
             "trans": r.take(12)}
        C["map"] = r.i16s(nC)
        C["cams"] = []
        for _ in range(nC):
            c = {"R": r.take(72), "T": r.take(24), "focus": r.take(16), "center": r.take(16)}
            if fmt == 1:
                c["radial"], c["decent"], c["prism"] = r.take(16), r.take(16), r.take(16)
            else:
                c["xd"], c["yd"] = r.take(560), r.take(560)
            c["vp"] = list(struct.unpack("<4i", r.take(16)))
            C["cams"].append(c)
    elif t == "optical":
        if fmt != 1:
            raise LayoutError("optical setup format")
        n = r.i32()
        r.pad(4)
        C = {"t": t, "fmt": 1, "chans": []}
        for _ in range(n):
            idx = r.i32()
            r.pad(4)
            c = {"idx": idx, "lens": r.string(32), "type": r.string(32), "name": r.string(32)}
            c["vp"] = list(struct.unpack("<4i", r.take(16)))
            C["chans"].append(c)
    elif t == "events":
        if fmt != 1:
            raise LayoutError("events format")
        n = r.i32()
        st = r.take(4)
        C = {"t": t, "fmt": 1, "start": st, "events": []}
        for _ in range(n):
            lab = r.string(256)
            kind = r.u32()
            k = r.i32()
            C["events"].append({"label": lab, "kind": kind, "values": r.take(4 * k)})
    else:
        raise LayoutError(f"no reference decoder for type {code}")
    if r.p != len(data):
        raise LayoutError(f"{len(data) - r.p} bytes of the block are not accounted for")
    return C, r


# ---------------------------------------------------------------------------
# container


def enc_header(n, cdate, mdate, adate, version=1, res1=b"\x00" * 8, res2=b"\x00" * 20):
    return SIGNATURE + struct.pack("<Ii", version, n) + res1 + struct.pack("<iii", cdate, mdate, adate) + res2


def enc_entry(code, fmt, offset, size, cdate, mdate, adate, comment, pad=b"\x00" * 4, tail=None):
    b = struct.pack("<IIiiiii", code, fmt, offset, size, cdate, mdate, adate) + pad
    s = enc_str(256, comment)
    if tail is not None:  # foreign writer: garbage after the terminator
        k = len(comment.encode("cp1252")) + 1
        s = s[:k] + tail[: 256 - k]
    return b + s


class Image:
    """Independent parse of a whole file image."""

    def __init__(self, data):
        self.data = bytes(data)
        d = self.data
        if len(d) < HEADER:
            raise LayoutError("shorter than a header")
        self.signature = d[:16]
        self.version, self.n = struct.unpack("<Ii", d[16:24])
        self.res1 = d[24:32]
        self.cdate, self.mdate, self.adate = struct.unpack("<iii", d[32:44])
        self.res2 = d[44:64]
        if self.n < 0 or HEADER + ENTRY * self.n > len(d):
            raise LayoutError(f"table of {self.n} entries does not fit a {len(d)}-byte file")
        self.table_end = HEADER + ENTRY * self.n
        self.entries = []
        self.dc = [(24, 32), (44, 64)]
        for i in range(self.n):
            base = HEADER + ENTRY * i
            r = Rd(d[base : base + ENTRY], base)
            code, fmt = r.u32(), r.u32()
            off, size = r.i32(), r.i32()
            cd, md, ad = r.i32(), r.i32(), r.i32()
            r.pad(4)
            com = r.string(256, lenient=True)
            self.entries.append({"i": i, "type": code, "fmt": fmt, "offset": off, "size": size,
                                 "cdate": cd, "mdate": md, "adate": ad, "comment": com,
                                 "badtext": isinstance(com, AnyText), "noncanon": r.noncanon})
            self.dc.extend(r.dc)

    def live(self):
        return [e for e in self.entries if e["type"] != 0]

    def payload(self, e):
        return self.data[e["offset"] : e["offset"] + e["size"]]


def build_image(n, slots, hdr_dates=(1000000000, 1000000000, 1000000000), garbage=None,
                layout="compact", version=1, unused_fmt=None, unused_off=None):
    """Foreign file written by the reference encoder.

    slots: list (len <= n) of dicts {type, fmt, payload(bytes), cdate, mdate, adate, comment}
           or None for an unused slot in that position.  Remaining slots are unused.
    garbage: None or a callable(k) -> k bytes for don't-care positions (BTS style).
    layout: 'compact' (back to back, table order) | 'reversed' (physical order reversed)
            | 'gaps' (a few unused bytes between blocks)
    Unused slots carry offset = end of data, size 0 (the convention of the BTS capture)."""
    g = garbage or (lambda k: b"\x00" * k)
    slots = list(slots) + [None] * (n - len(slots))
    table_end = HEADER + ENTRY * n
    order = [i for i, s in enumerate(slots) if s is not None]
    phys = list(order)
    if layout == "reversed":
        phys.reverse()
    pos = table_end
    offs = {}
    body = bytearray()
    for k, i in enumerate(phys):
        if layout == "gaps" and k > 0:
            gap = 1 + (len(slots[i]["payload"]) % 7)
            body += g(gap)
            pos += gap
        offs[i] = pos
        body += slots[i]["payload"]
        pos += len(slots[i]["payload"])
    end = pos
    out = bytearray(enc_header(n, *hdr_dates, version=version, res1=g(8), res2=g(20)))
    for i, s in enumerate(slots):
        if s is None:
            uo = {None: end, "zero": 0, "neg": -5 - i, "inside": table_end + 3 + i, "beyond": end + 1000 + 8 * i,
                  "table": HEADER + 7}[unused_off]
            out += enc_entry(0, (unused_fmt * (i + 1)) % 4 if unused_fmt else 0, uo, 0, hdr_dates[0], hdr_dates[1], hdr_dates[2], "",
                             pad=g(4), tail=g(256) if garbage else None)
        else:
            out += enc_entry(s["type"], s["fmt"], offs[i], len(s["payload"]), s["cdate"],
                             s["mdate"], s["adate"], s["comment"], pad=g(4),
                             tail=g(256) if garbage else None)
    out += body
    return bytes(out)


def scribble_payload(code, fmt, payload, g):
    """Return payload with every don't-care byte replaced by g(k)."""
    _C, r = decode(code, fmt, payload)
    b = bytearray(payload)
    for s, e in r.dc:
        b[s:e] = g(e - s)
    return bytes(b)
