"""Seeded generation of canonical block contents (see refcodec docstring)."""
import struct

from .refcodec import OPAQUE_CODES, TYPE_CODE

KINDS = ["data3d", "emg", "ft", "fpdata", "fpcal", "data2d", "calib", "optical", "events"]
SEGMENTED = ("data3d", "emg", "ft", "fpdata")
REC = {"data3d": 12, "emg": 4, "ft": 36, "fpdata": 24}

# every byte value that decodes under cp1252 and is not NUL
_CP1252 = [bytes([b]).decode("cp1252") for b in range(1, 256) if b not in (0x81, 0x8D, 0x8F, 0x90, 0x9D)]
_ASCII = "abcdefghijklmnopqrstuvwxyzABCDEFGHIJKLMNOPQRSTUVWXYZ0123456789 _-."

_SPECIAL32 = [0x00000000, 0x80000000, 0x00000001, 0x807FFFFF, 0x007FFFFF, 0x7F7FFFFF, 0xFF7FFFFF,
              0x00800000, 0x3F800000, 0xBF800000, 0x33800000]
_SPECIAL64 = [0x0, 0x8000000000000000, 0x1, 0x800FFFFFFFFFFFFF, 0x7FEFFFFFFFFFFFFF,
              0xFFEFFFFFFFFFFFFF, 0x0010000000000000, 0x3FF0000000000000, 0x3FB999999999999A]


def f32s(rng, n, mix):
    if n > 5000:  # bulk: one PRNG draw, then a deterministic ramp (values are all distinct and finite)
        import numpy as np
        base = rng.uniform(-1000.0, 1000.0)
        return (np.arange(n, dtype="<f4") * np.float32(0.25) + np.float32(base)).astype("<f4").tobytes()
    out = bytearray()
    for _ in range(n):
        if mix == "ordinary":
            out += struct.pack("<f", rng.uniform(-2000.0, 2000.0))
        elif mix == "special":
            out += struct.pack("<I", rng.choice(_SPECIAL32))
        elif mix == "bits":
            while True:
                v = rng.getrandbits(32)
                if (v >> 23) & 0xFF != 0xFF:
                    break
            out += struct.pack("<I", v)
        else:  # mixed
            out += f32s(rng, 1, rng.choice(("ordinary", "ordinary", "special", "bits")))
    return bytes(out)


def f64s(rng, n, mix):
    out = bytearray()
    for _ in range(n):
        m = mix if mix != "mixed" else rng.choice(("ordinary", "ordinary", "special", "bits"))
        if m == "ordinary":
            out += struct.pack("<d", rng.uniform(-5000.0, 5000.0))
        elif m == "special":
            out += struct.pack("<Q", rng.choice(_SPECIAL64))
        else:
            while True:
                v = rng.getrandbits(64)
                if (v >> 52) & 0x7FF != 0x7FF:
                    break
            out += struct.pack("<Q", v)
    return bytes(out)


def text(rng, width, style=None):
    """A valid string for an s[width] field: cp1252-encodable, NUL-free, < width bytes."""
    style = style or rng.choice(("ascii", "ascii", "ascii", "cp1252", "empty", "one", "max", "nearmax"))
    mx = width - 1
    if style == "empty":
        return ""
    if style == "one":
        return rng.choice(_CP1252)
    if style == "max":
        n = mx
    elif style == "nearmax":
        n = max(0, mx - rng.randint(1, 3))
    else:
        n = rng.randint(1, min(12, mx))
    pool = _ASCII if style == "ascii" else _CP1252
    if style in ("max", "nearmax") and rng.random() < 0.5:
        pool = _ASCII
    return "".join(rng.choice(pool) for _ in range(n))


def mask(rng, n, style=None):
    style = style or rng.choice(("full", "full", "random", "random", "onegap", "lead", "trail",
                                 "empty", "alt", "sparse"))
    if style == "full" or n == 0:
        return "1" * n
    if style == "empty":
        return "0" * n
    if style == "alt":
        return "".join("10"[(i + rng.randint(0, 1)) % 2] for i in range(n)) if n < 2 else \
            "".join("10"[i % 2] for i in range(n))[:: rng.choice((1, -1))]
    if style == "lead":
        k = rng.randint(1, n)
        return "0" * k + "1" * (n - k)
    if style == "trail":
        k = rng.randint(1, n)
        return "1" * (n - k) + "0" * k
    if style == "onegap":
        a = rng.randint(0, n - 1)
        b = rng.randint(a + 1, n)
        return "1" * a + "0" * (b - a) + "1" * (n - b)
    p = 0.15 if style == "sparse" else rng.choice((0.3, 0.5, 0.8))
    return "".join("1" if rng.random() < p else "0" for _ in range(n))


def i32(rng, lo=None, hi=None):
    r = rng.random()
    if lo is None:
        lo, hi = -(2**31), 2**31 - 1
    if r < 0.6:
        return rng.randint(max(lo, 0), min(hi, 2000))
    if r < 0.8:
        return rng.choice([x for x in (lo, hi, 0, 1, -1) if lo <= x <= hi])
    return rng.randint(lo, hi)


def channels(rng, n, top=32767):
    """n distinct acquisition channels in 0..top (32767 for the signed maps, 65535 for the
    unsigned map of the platform-data block)."""
    if rng.random() < 0.5:
        base = rng.randint(0, 4)
        chs = list(range(base, base + n))
        if rng.random() < 0.5:
            rng.shuffle(chs)
        return chs
    s = set()
    while len(s) < n:
        s.add(rng.choice((rng.randint(0, 40), rng.randint(0, top), top, 0, min(top, 32768), min(top, 32767))))
    chs = list(s)
    rng.shuffle(chs)
    return chs


def shape(rng, big=False, min_items=0):
    if big:
        return rng.randint(max(min_items, 4), 12), rng.randint(30, 200)
    r = rng.random()
    items = 0 if r < 0.12 else (1 if r < 0.4 else rng.randint(2, 4))
    items = max(items, min_items)
    frames = rng.choice((1, 1, 2, 3, 5, 8, 13, rng.randint(1, 24)))
    return items, frames


def block(rng, kind, big=False, min_items=0, fmix=None, masks=None, fmt=None, huge_cell=False):
    """Random valid canonical content of the given kind.
    masks: optional list of masks to use for the segmented tracks (C05 stratification)."""
    fmix = fmix or rng.choice(("ordinary", "mixed", "mixed", "special", "bits"))
    nI, nF = shape(rng, big, min_items)
    if masks is not None:
        nI = len(masks)
        nF = len(masks[0]) if masks else nF
    st = f32s(rng, 1, fmix)
    freq = i32(rng, 0, 2**31 - 1)

    def tracks(rec, with_label=True, with_ch=False):
        out = []
        chs = channels(rng, nI, 65535 if kind == "fpdata" else 32767) if with_ch else None
        for k in range(nI):
            m = masks[k] if masks is not None else mask(rng, nF)
            tr = {}
            if with_ch:
                tr["ch"] = chs[k]
            if with_label:
                tr["label"] = text(rng, 256)
            tr["mask"] = m
            tr["data"] = f32s(rng, (rec // 4) * m.count("1"), fmix)
            w = rec // 4
            if w > 1 and tr["data"] and fmix != "ordinary" and rng.random() < 0.08:
                # an infinite sample in a component that does not decide whether the frame is there
                d = bytearray(tr["data"])
                for _ in range(rng.randint(1, 3)):
                    fr = rng.randrange(len(d) // (4 * w))
                    col = rng.randint(1, w - 1)
                    d[4 * (fr * w + col): 4 * (fr * w + col) + 4] = struct.pack("<I", rng.choice((0x7F800000, 0xFF800000)))
                tr["data"] = bytes(d)
            out.append(tr)
        return out

    if kind == "data3d":
        f = fmt or rng.choice((1, 1, 2))
        C = {"t": kind, "fmt": f, "nFrames": nF, "freq": freq, "start": st,
             "flag": rng.randint(0, 1), "vol": f32s(rng, 3, fmix), "rot": f32s(rng, 9, fmix),
             "trans": f32s(rng, 3, fmix)}
        if f == 1:
            nL = rng.choice((0, 0, 1, 2, 5)) if not big else rng.randint(0, 31)
            C["links"] = [[rng.getrandbits(32) if rng.random() < 0.1 else rng.randint(0, max(nI, 1)),
                           rng.randint(0, max(nI, 1))] for _ in range(nL)]
            C["links_attr"] = rng.random() < 0.5
            C["links_as"] = rng.choice(("struct", "struct", "tuples", "lists", "array"))  # the container the user puts them in
        C["tracks"] = tracks(12)
        return C
    if kind == "emg":
        return {"t": kind, "fmt": 1, "nSamples": nF, "freq": freq, "start": st,
                "tracks": tracks(4, with_ch=True)}
    if kind == "ft":
        return {"t": kind, "fmt": 1, "nFrames": nF, "freq": freq, "start": st,
                "vol": f32s(rng, 3, fmix), "rot": f32s(rng, 9, fmix), "trans": f32s(rng, 3, fmix),
                "tracks": tracks(36)}
    if kind == "fpdata":
        tr = tracks(24, with_label=False, with_ch=True)
        return {"t": kind, "fmt": 1, "nFrames": nF, "freq": freq, "start": st, "plats": tr}
    if kind == "fpcal":
        chs = channels(rng, nI)
        return {"t": kind, "fmt": 2, "plats": [{"ch": chs[k], "label": text(rng, 256),
                                                "size": f32s(rng, 2, fmix), "pos": f32s(rng, 12, fmix)}
                                               for k in range(nI)]}
    if kind == "data2d":
        nC = nI
        nFr = min(nF, 12) if not big else nF
        cells = []
        for _fr in range(nFr):
            row = []
            for _c in range(nC):
                k = rng.choice((0, 0, 1, 2, 3, 5))
                row.append(None if k == 0 else f32s(rng, 2 * k, fmix))
            cells.append(row)
        if huge_cell and cells and cells[0]:
            # one camera sees >= 8192 points in one frame (the on-disk count is a u16: valid up to 65535)
            k = rng.choice((8192, 8193, 9000, 20000))
            cells[rng.randrange(nFr)][rng.randrange(nC)] = f32s(rng, 2 * k, "ordinary")
        return {"t": kind, "fmt": 2, "nCams": nC, "nFrames": nFr, "freq": freq, "start": st,
                "flags": rng.randint(0, 1), "camMap": channels(rng, nC), "cells": cells,
                **({"camMap": list(range(nC)), "camMap_unset": True} if rng.random() < 0.3 else {})}
    if kind == "calib":
        f = fmt or rng.choice((1, 1, 2))
        cams = []
        for _ in range(nI):
            c = {"R": f64s(rng, 9, fmix), "T": f64s(rng, 3, fmix), "focus": f64s(rng, 2, fmix),
                 "center": f64s(rng, 2, fmix)}
            if f == 1:
                c.update(radial=f64s(rng, 2, fmix), decent=f64s(rng, 2, fmix), prism=f64s(rng, 2, fmix))
            else:
                c.update(xd=f64s(rng, 70, fmix), yd=f64s(rng, 70, fmix))
            c["vp"] = [i32(rng) for _ in range(4)]
            cams.append(c)
        return {"t": kind, "fmt": f, "model": rng.randint(0, 3), "vol": f32s(rng, 3, fmix),
                "rot": f32s(rng, 9, fmix), "trans": f32s(rng, 3, fmix), "map": channels(rng, nI),
                "cams": cams}
    if kind == "optical":
        return {"t": kind, "fmt": 1, "chans": [{"idx": i32(rng), "lens": text(rng, 32),
                                                "type": text(rng, 32), "name": text(rng, 32),
                                                "vp": [i32(rng) for _ in range(4)]}
                                               for _ in range(nI)]}
    if kind == "events":
        evs = []
        for _ in range(nI):
            k = rng.randint(0, 1)
            nv = rng.randint(0, 1) if k == 0 else rng.choice((0, 1, 2, 3, 7))
            evs.append({"label": text(rng, 256), "kind": k, "values": f32s(rng, nv, fmix)})
        return {"t": kind, "fmt": 1, "start": st, "events": evs}
    raise ValueError(kind)


UNSUPPORTED_FMT = {5: (3, 4), 11: (2,), 12: (2, 3, 4), 9: (2, 3)}  # declared by the format, not implemented here


def opaque(rng, exclude=(), known_ok=False):
    codes = [c for c in OPAQUE_CODES if c not in exclude]
    known = [c for c in UNSUPPORTED_FMT if c not in exclude]
    n = rng.choice((0, 1, 7, 64, 85, 300, rng.randint(1, 900)))
    if known_ok and known and (not codes or rng.random() < 0.3):
        # a block of a type the library knows, in a layout of that type it does not implement
        # (3D data by frame ...): it is there, it can be moved and removed, it cannot be decoded
        code = rng.choice(known)
        return {"code": code, "fmt": rng.choice(UNSUPPORTED_FMT[code]), "bytes": bytes(rng.getrandbits(8) for _ in range(n))}
    code = rng.choice(codes)
    return {"code": code, "fmt": rng.randint(0, 5), "bytes": bytes(rng.getrandbits(8) for _ in range(n))}


def comment(rng):
    r = rng.random()
    if r < 0.25:
        return None  # library default
    if r < 0.35:
        return text(rng, 256, "max")
    return text(rng, 256)


def code_of(C):
    return TYPE_CODE[C["t"]]


# ---------------------------------------------------------------------------
# JSON transport (replay files): bytes <-> {"$b": hex}


def to_json(x):
    if isinstance(x, (bytes, bytearray)):
        return {"$b": bytes(x).hex()}
    if isinstance(x, dict):
        return {k: to_json(v) for k, v in x.items()}
    if isinstance(x, (list, tuple)):
        return [to_json(v) for v in x]
    return x


def from_json(x):
    if isinstance(x, dict):
        if len(x) == 1 and "$b" in x:
            return bytes.fromhex(x["$b"])
        return {k: from_json(v) for k, v in x.items()}
    if isinstance(x, list):
        return [from_json(v) for v in x]
    return x
