"""Delta-debugging minimiser for explicit operation lists (W1 and W2)."""
import copy


def vclass(v):
    return (v["prop"], v["tag"], v["pattern"].split(":")[0], v["op"])


def shrink(execute, cfg, ops, target, budget=600, step=None, wall=90.0):
    """execute(cfg, ops) -> list of violations.  Keeps a candidate only if a violation of the
    same class (property, invariant tag, pattern, operation kind) persists.
    Returns (cfg, ops, executions)."""
    import time
    runs = [0]
    t_end = time.time() + wall

    def fails(c, o):
        if runs[0] >= budget or time.time() > t_end:
            return False
        runs[0] += 1
        try:
            vs = execute(c, o)
        except Exception:
            return False  # a harness error is never "the same violation"
        return any(vclass(v) == target for v in vs)

    # 1. truncate after the violating step
    cur = list(ops)
    if step is not None and step + 1 < len(cur) and fails(cfg, cur[: step + 1]):
        cur = cur[: step + 1]
    # 2. ddmin over operations
    n = 2
    while len(cur) >= 2 and runs[0] < budget:
        chunk = max(1, len(cur) // n)
        reduced = False
        for i in range(0, len(cur), chunk):
            cand = cur[:i] + cur[i + chunk:]
            if cand and fails(cfg, cand):
                cur = cand
                n = max(n - 1, 2)
                reduced = True
                break
        if not reduced:
            if chunk == 1:
                break
            n = min(len(cur), n * 2)
    # 3. simplify arguments
    for i in range(len(cur)):
        progress = True
        while progress and runs[0] < budget:
            progress = False
            for simp in _simplifications(cur[i]):  # always derived from the current form of the op
                cand = cur[:i] + [simp] + cur[i + 1:]
                if fails(cfg, cand):
                    cur = cand
                    progress = True
                    break
    # 4. default knobs
    c = dict(cfg)
    for k, v in (("buf", 8192), ("short_read", False), ("short_write", False), ("tz", "UTC"),
                 ("poison", "zero")):
        if k in c and c[k] != v:
            cand = dict(c)
            cand[k] = v
            if fails(cand, cur):
                c = cand
    return c, cur, runs[0]


def _simplifications(op):
    out = []
    if "clock" in op and op["clock"] != 61:
        o = dict(op)
        o["clock"] = 61
        out.append(o)
    if op.get("comment") is not None:
        o = dict(op)
        o["comment"] = None
        out.append(o)
    if op.get("f64"):
        o = dict(op)
        o["f64"] = False
        out.append(o)
    if "C" in op:
        for C2 in _smaller_blocks(op["C"]):
            o = dict(op)
            o["C"] = C2
            out.append(o)
    if "slots" in op:
        for k in range(len(op["slots"])):
            o = dict(op)
            o["slots"] = op["slots"][:k] + op["slots"][k + 1:]
            out.append(o)
        if op.get("garbage") is not None:
            o = dict(op)
            o["garbage"] = None
            out.append(o)
    for key in ("bases", "blocks"):
        if key in op and len(op[key]) > 1:
            for k in range(len(op[key])):
                o = dict(op)
                o[key] = op[key][:k] + op[key][k + 1:]
                out.append(o)
    if op.get("what") is not None and len(op["what"]) > 1:
        for k in range(len(op["what"])):
            o = dict(op)
            o["what"] = op["what"][:k] + op["what"][k + 1:]
            out.append(o)
    if "ids" in op and op["ids"] and len(op["ids"]) > 1 and "bad_at" not in op and "raise_after" not in op:
        o = dict(op)
        o["ids"] = op["ids"][:1]
        if "chs" in o and o["chs"]:
            o["chs"] = o["chs"][:1]
        out.append(o)
    return out


def _smaller_blocks(C):
    out = []
    for key in ("tracks", "plats", "chans", "events", "cams"):
        if key in C and C[key]:
            c = copy.copy(C)
            c[key] = []
            if key == "cams":
                c["map"] = []
            out.append(c)
            if len(C[key]) > 1:
                c = copy.copy(C)
                c[key] = C[key][:1]
                if key == "cams":
                    c["map"] = C["map"][:1]
                out.append(c)
    if C.get("links"):
        c = copy.copy(C)
        c["links"] = []
        out.append(c)
    if C.get("t") == "data2d" and C["nCams"]:
        c = copy.copy(C)
        c.update(nCams=0, camMap=[], cells=[[] for _ in range(C["nFrames"])])
        out.append(c)
    return out
