#!/venv/bin/python
"""Regenerate the table of section 8.3 of DESIGN.md from seeded/*/meta.json (in place)."""
import glob
import json
import os
import re

VERIF = os.path.dirname(os.path.dirname(os.path.abspath(__file__)))


def key(mid):
    m = re.match(r"(.*)-m(\d+)$", mid)
    return (mid.startswith("F-"), m.group(1), int(m.group(2)))


def main():
    rows, caught, total, obsolete = [], 0, 0, 0
    for p in sorted(glob.glob(os.path.join(VERIF, "seeded", "*", "meta.json")), key=lambda p: key(os.path.basename(os.path.dirname(p)))):
        d = json.load(open(p))
        mid = d["id"]
        what = " ".join(d.get("needs_to_manifest", "").split())
        what = what.replace("|", "\\|")
        what = what[:200].rsplit(" ", 1)[0] + " ..." if len(what) > 200 else what
        checks = d["result"]["checks"]
        by = [c for c, r in checks.items() if r["verdict"] == "caught"]
        if d.get("obsolete"):
            obsolete += 1
            rows.append(f"| `{mid}` | {what} | *obsolete*: no longer breaks the property on the repaired tree (was caught) |  |")
            continue
        total += 1
        if by:
            caught += 1
            first = checks[by[0]]["first"]
            m = re.search(r"class=\[([^\]]*)\]", first)
            cls = m.group(1).replace("'", "") if m else ""
            rows.append(f"| `{mid}` | {what} | " + ", ".join(f"`./check {c}`" for c in by) + f" | {cls} |")
        else:
            rows.append(f"| `{mid}` | {what} | **not caught** |  |")
    path = os.path.join(VERIF, "DESIGN.md")
    lines = open(path).read().split("\n")
    i0 = next(i for i, ln in enumerate(lines) if ln.startswith("| change | what it is"))
    i1 = i0 + 2
    while i1 < len(lines) and lines[i1].startswith("|"):
        i1 += 1
    lines[i0 + 2:i1] = rows
    open(path, "w").write("\n".join(lines))
    print(f"{caught}/{total} caught; {obsolete} obsolete; table rows {len(rows)}")


if __name__ == "__main__":
    main()
