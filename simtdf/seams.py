"""Clock, time-zone and allocator seams (patched from outside the repository)."""
import datetime as _dt
import os
import time

import numpy as np

TZS = ["UTC", "Europe/Rome", "America/Argentina/Buenos_Aires", "America/Sao_Paulo",
       "Asia/Kolkata", "Pacific/Chatham"]


class SimClock:
    def __init__(self, epoch):
        self.now = float(epoch)
        self.start = float(epoch)
        self.advanced = 0.0
        self.calls = 0

    def advance(self, s):
        self.now += s
        self.advanced += abs(s)
        # stay inside the 32-bit date range with a margin
        if self.now < 86400 * 400:
            self.now = 86400 * 400 + (self.now % 86400)
        if self.now > 2**31 - 86400 * 400:
            self.now = 2**31 - 86400 * 400 - (self.now % 86400)


_CLOCK = None


class SimDateTime(_dt.datetime):
    """datetime whose now() reads the simulated clock (local naive time, like the real one)."""

    @classmethod
    def now(cls, tz=None):
        if _CLOCK is None:
            return _dt.datetime.now(tz)
        _CLOCK.calls += 1
        return _dt.datetime.fromtimestamp(int(_CLOCK.now), tz)

    @classmethod
    def today(cls):
        return cls.now()

    @classmethod
    def utcnow(cls):
        if _CLOCK is None:
            return _dt.datetime.utcnow()
        return _dt.datetime.utcfromtimestamp(int(_CLOCK.now))


def install_clock(clock, modules):
    """Best effort: a module that has no `datetime` attribute is skipped."""
    global _CLOCK
    _CLOCK = clock
    n = 0
    for m in modules:
        if getattr(m, "datetime", None) in (_dt.datetime, SimDateTime):
            m.datetime = SimDateTime
            n += 1
    return n


_real_time, _real_time_ns = time.time, time.time_ns


def _lib_running():
    from . import simfs
    d = simfs._DISK
    return _CLOCK is not None and d is not None and d.actor != "harness"


def _sim_time():
    return float(_CLOCK.now) if _lib_running() else _real_time()


def _sim_time_ns():
    return int(_CLOCK.now * 1e9) if _lib_running() else _real_time_ns()


def install_time():
    """time.time()/time_ns() read the simulated clock while library code runs (and only then:
    the runner's own budgets use the real one)."""
    if time.time is not _sim_time:
        time.time, time.time_ns = _sim_time, _sim_time_ns


def set_tz(name):
    os.environ["TZ"] = name
    time.tzset()


# ---------------------------------------------------------------------------
# allocator contents

_real_empty = np.empty
_POISON = {"kind": "none", "n": 0}
POISONS = ["zero", "x42", "xAA", "ramp", "nan"]


def _poisoned_empty(shape, dtype=float, *a, **kw):
    arr = _real_empty(shape, dtype, *a, **kw)
    k = _POISON["kind"]
    if k == "none" or arr.dtype.hasobject or arr.size == 0:
        return arr
    _POISON["n"] += 1
    flat = arr.view(np.uint8).reshape(-1)
    if k == "zero":
        flat[:] = 0
    elif k == "x42":
        flat[:] = 0x42  # 48.56 as float32
    elif k == "xAA":
        flat[:] = 0xAA  # -3.0316e-13 as float32
    elif k == "ramp":
        flat[:] = (np.arange(flat.size, dtype=np.uint32) * 37 + 11).astype(np.uint8) & 0x7E
    elif k == "nan":
        flat[:] = 0xFF  # NaN: what lucky memory looks like
    return arr


def install_poison():
    if np.empty is not _poisoned_empty:
        np.empty = _poisoned_empty


def set_poison(kind):
    _POISON["kind"] = kind


def poison_count():
    return _POISON["n"]


# ---------------------------------------------------------------------------
# process-global mutable state of the library: every simulated run starts in a "fresh process"

_GLOBALS = None


def _mutable(x):
    import collections
    import io
    return isinstance(x, (list, dict, set, bytearray, io.BytesIO, collections.deque)) or \
        (isinstance(x, np.ndarray) and x.flags.writeable)


def _snap(x):
    import copy
    import io
    if isinstance(x, io.BytesIO):
        return (x.getvalue(), x.tell())
    return copy.deepcopy(x)


def snapshot_globals():
    """Remember the import-time value of every mutable default argument and mutable class /
    module attribute in basictdf, so that reset_globals() can put them back *in place*."""
    global _GLOBALS
    import copy
    import inspect
    import sys
    snap = []
    for name, mod in sorted(sys.modules.items()):
        if not (name == "basictdf" or name.startswith("basictdf.")) or mod is None:
            continue
        holders = [mod]
        for _n, obj in sorted(vars(mod).items()):
            if inspect.isclass(obj) and getattr(obj, "__module__", "").startswith("basictdf"):
                holders.append(obj)
        for h in holders:
            for an, av in sorted(vars(h).items(), key=lambda kv: kv[0]):
                if an.startswith("__") and an.endswith("__") and not callable(av):
                    continue
                if _mutable(av):
                    snap.append((av, _snap(av)))
                fn = av.__func__ if isinstance(av, (staticmethod, classmethod)) else av
                if isinstance(fn, property):
                    fns = [f for f in (fn.fget, fn.fset) if f is not None]
                else:
                    fns = [fn]
                for f in fns:
                    f = inspect.unwrap(f) if callable(f) else f
                    for d in (getattr(f, "__defaults__", None) or ()):
                        if _mutable(d):
                            snap.append((d, _snap(d)))
                    for d in (getattr(f, "__kwdefaults__", None) or {}).values():
                        if _mutable(d):
                            snap.append((d, _snap(d)))
    _GLOBALS = snap
    return len(snap)


def _clear_caches():
    """functools caches inside basictdf hold state across runs: one run = one fresh process."""
    import inspect
    import sys
    for name, mod in sorted(sys.modules.items()):
        if not (name == "basictdf" or name.startswith("basictdf.")) or mod is None:
            continue
        holders = [mod] + [o for _n, o in sorted(vars(mod).items())
                           if inspect.isclass(o) and getattr(o, "__module__", "").startswith("basictdf")]
        for h in holders:
            for _an, av in sorted(vars(h).items(), key=lambda kv: kv[0]):
                fn = av.__func__ if isinstance(av, (staticmethod, classmethod)) else av
                if isinstance(fn, property):
                    cands = [fn.fget, fn.fset]
                else:
                    cands = [fn]
                for f in cands:
                    cc = getattr(f, "cache_clear", None)
                    if callable(cc):
                        cc()


def reset_globals():
    if _GLOBALS is None:
        snapshot_globals()
    _clear_caches()
    for live, saved in _GLOBALS:
        if isinstance(live, list):
            live[:] = saved
        elif isinstance(live, (dict, set)):
            live.clear()
            live.update(saved)
        elif isinstance(live, bytearray):
            live[:] = saved
        elif isinstance(live, np.ndarray):
            if live.shape == saved.shape:
                live[...] = saved
        elif hasattr(live, "getvalue") and isinstance(saved, tuple):  # io.BytesIO
            live.seek(0)
            live.truncate(0)
            live.write(saved[0])
            live.seek(saved[1])
        elif hasattr(live, "appendleft"):  # deque
            live.clear()
            live.extend(saved)


# ---------------------------------------------------------------------------
# adversarial dates: the repeated hour at the end of daylight saving time

_FOLDS = {}


def fold_instants(tzname):
    """POSIX timestamps t at which the zone's UTC offset drops by d seconds: local times in
    [t - d, t) occur a second time in [t, t + d).  Returns [(t, d), ...] for 1971..2037."""
    if tzname in _FOLDS:
        return _FOLDS[tzname]
    out = []
    try:
        import zoneinfo
        from datetime import datetime, timezone
        z = zoneinfo.ZoneInfo(tzname)

        def off(ts):
            return int(datetime.fromtimestamp(ts, timezone.utc).astimezone(z).utcoffset().total_seconds())
        day = 86400
        ts = 86400 * 366
        prev = off(ts)
        end = 2**31 - 86400 * 366
        while ts < end:
            nxt = ts + day
            cur = off(nxt)
            if cur < prev:
                lo, hi = ts, nxt
                while hi - lo > 1:
                    mid = (lo + hi) // 2
                    if off(mid) == prev:
                        lo = mid
                    else:
                        hi = mid
                out.append((hi, prev - cur))
            prev = cur
            ts = nxt
    except Exception:
        out = []
    _FOLDS[tzname] = out
    return out
