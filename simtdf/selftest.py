"""Self-tests of the simulator: determinism (same seed => same event log everywhere) and
sensitivity (single-site source mutants that keep the 39 tests green must be caught)."""
import json
import os
import shutil
import subprocess
import sys
import tempfile
import time

from . import refcodec as rc, runner

VERIF = runner.VERIF
CAPTURE = "/repo/tests/test_files/2838~aa~Walking 01.tdf"


def validate_refcodec():
    """The reference codec must account for every byte of every block of the BTS capture."""
    if not os.path.exists(CAPTURE):
        print("selftest: BTS capture not present, reference codec not validated against it")
        return True
    with open(CAPTURE, "rb") as f:
        d = f.read()
    im = rc.Image(d)
    ok = im.n == 14 and len(im.live()) == 8
    for e in im.live():
        p = im.payload(e)
        C, r = rc.decode(e["type"], e["fmt"], p)
        enc = rc.encode(C)
        a, b = bytearray(p), bytearray(enc)
        ok &= len(a) == len(b)
        for s, en in r.dc:
            a[s:en] = b"\0" * (en - s)
            b[s:en] = b"\0" * (en - s)
        ok &= a == b
    print(f"selftest: reference codec vs BTS capture (8 blocks, every byte accounted for): {'ok' if ok else 'MISMATCH'}")
    return ok


def determinism(argv):
    n = 24
    if "--n" in argv:
        n = int(argv[argv.index("--n") + 1])
    props = ["C03", "C07", "C08", "C12", "C17", "C15", "C16", "C20"]
    t0 = time.time()
    ok = validate_refcodec()
    base = runner.BASE_SEED["quick"]
    total = 0
    for prop in props:
        a = runner.digests(prop, "quick", base, n)
        env = dict(os.environ, PYTHONHASHSEED="12345", VERIF_TIER="quick", VERIF_SEED=str(base))
        env.pop("MALLOC_PERTURB_", None)
        r = subprocess.run([sys.executable, os.path.join(VERIF, "check"), "digests", prop, str(n)],
                           capture_output=True, text=True, env=env, timeout=600)
        b = r.stdout.split()
        agg1 = runner.batch(prop, "quick", base, n, 120, 1)
        agg4 = runner.batch(prop, "quick", base, n, 120, 5)
        c = [d for _i, d in sorted(agg1["digests"])]
        d = [d for _i, d in sorted(agg4["digests"])]
        a16 = [x.split(":")[0] for x in a]
        b16 = [x.split(":")[0] for x in b]
        same = a16 == b16 == c == d
        total += n
        if not same:
            ok = False
            print(f"selftest: NON-DETERMINISM in {prop}: in-process vs fresh interpreter (other PYTHONHASHSEED) "
                  f"vs 1 worker vs 5 workers differ")
            for i, (w, x, y, z) in enumerate(zip(a16, b16 + [""] * n, c + [""] * n, d + [""] * n)):
                if not (w == x == y == z):
                    print(f"   run {i}: {w} {x} {y} {z}")
                    break
    print(f"selftest: determinism over {total} seeds x 4 executions "
          f"(in-process, fresh interpreter with another PYTHONHASHSEED, 1 worker, 5 workers): "
          f"{'ok' if ok else 'FAILED'} in {time.time() - t0:.1f}s")
    return 0 if ok else 2


# ---------------------------------------------------------------------------
# sensitivity: (id, property, file, old, new)

MUTANTS = [
    ("c01-emg-bias", "C01", "tdfEMG.py", "nSamples = i32.bread(stream) + 49", "nSamples = i32.bread(stream) + 48"),
    ("c01-3d-cols", "C01", "tdfData3D.py", "TrackType.bwrite(file, self.data[segment])",
     "TrackType.bwrite(file, self.data[segment][:, [0, 2, 1]])"),
    ("c01-ft-order", "C01", "tdfForce3D.py",
     "                ForceType.bwrite(file, self.force[frame])\n                # torque\n                TorqueType.bwrite(file, self.torque[frame])",
     "                TorqueType.bwrite(file, self.torque[frame])\n                ForceType.bwrite(file, self.force[frame])"),
    ("c01-event-last", "C01", "tdfEvents.py", "for _ in range(nItems)])", "for _ in range(max(nItems - 1, 0))])\n        stream.seek(4 if nItems else 0, 1)"),
    ("c02-track-nbytes", "C02", "tdfData3D.py",
     "            base += 4 + 4 + (segment.stop - segment.start) * TrackType.btype.itemsize",
     "            base += (segment.stop - segment.start) * TrackType.btype.itemsize\n        base += 8 * min(1, len(self._segments))"),
    ("c02-links-nbytes", "C02", "tdfData3D.py", "LinkType.btype.itemsize * len(self._link_records())", "0 * len(self._link_records())"),
    ("c02-optical-vp", "C02", "tdfOpticalSystem.py", "        camera_viewport = CameraViewPort.bread(stream)\n",
     "        camera_viewport = CameraViewPort(VEC2I.bread(stream), VEC2I.bread(stream) if False else np.zeros(2, dtype='<i4'))\n"),
    ("c09-add-no-repoint", "C09", "basictdf.py", "            entry.offset = new_entry.offset + new_entry.size\n", "            pass\n"),
    ("c03-remove-shift", "C03", "basictdf.py", "                entry.offset -= oldEntry.size", "                entry.offset -= max(oldEntry.size - 1, 0)"),
    ("c04-tail-late", "C04", "basictdf.py", "self.handler.seek(oldEntry.offset + oldEntry.size, 0)\n        temp = self.handler.read()",
     "self.handler.seek(oldEntry.offset + oldEntry.size + 1, 0)\n        temp = b'\\0' + self.handler.read()"),
    ("c04-entry-dates", "C04", "basictdf.py", "        BTSDate.bwrite(file, self.last_modification_date)\n        BTSDate.bwrite(file, self.last_access_date)\n        i32.bpad(file)",
     "        BTSDate.bwrite(file, self.creation_date)\n        BTSDate.bwrite(file, self.last_access_date)\n        i32.bpad(file)"),
    ("c04-shift-now", "C04", "basictdf.py", "            if moved:\n                entry.offset -= oldEntry.size",
     "            if moved:\n                entry.offset -= oldEntry.size\n                entry.last_modification_date = datetime.now()"),
    ("c04-replace-comment", "C04", "basictdf.py", "comment = comment if comment is not None else old_entry.comment",
     'comment = comment if comment is not None else "Generated by basicTDF"'),
    ("c05-no-prefill-3d", "C05", "tdfData3D.py", "        trackData[:] = np.NaN\n", ""),
    ("c05-no-prefill-emg", "C05", "tdfEMG.py", "        trackData[:] = np.nan\n", ""),
    ("c05-no-prefill-ft", "C05", "tdfForce3D.py", "        force_data[:] = np.nan\n", ""),
    ("c05-clump-masked", "C05", "tdfEMG.py", "return np.ma.clump_unmasked(maskedTrackData.T)",
     "return np.ma.clump_unmasked(maskedTrackData.T) if not np.isnan(self.data).all() else [slice(0, 0)]"),
    ("c06-vp-swap", "C06", "tdfTypes.py", None, None),
    ("c06-emg-bias-both", "C06", "tdfEMG.py", "49", "48"),
    ("c06-entry-pad-moved", "C06", "basictdf.py", None, None),
    ("c07-validate-late", "C07", "basictdf.py", None, None),  # the block is serialised after the in-memory table was updated
    ("c07-replace-no-validate", "C07", "basictdf.py", "        newBlock._write(BytesIO())\n        remaining", "        remaining"),
    ("c08-exit-keeps-mode", "C08", "basictdf.py", '        self._inside_context = False\n        self._mode = "rb"\n', "        self._inside_context = False\n"),
    ("c08-getter-rplus", "C08", "basictdf.py", "        return any(entry.type == BlockType.data3D for entry in self.entries)",
     "        r = any(entry.type == BlockType.data3D for entry in self.entries)\n        if 'w' in self.handler.mode or '+' in self.handler.mode:\n            self.handler.seek(0, 0)\n            self.handler.write(self.SIGNATURE)\n            self.handler.flush()\n        return r"),
    ("c08-implicit-no-exit", "C08", "tdfUtils.py", "            with self:\n                return method(self, *args, **kwargs)",
     "            self.__enter__()\n            r = method(self, *args, **kwargs)\n            self._inside_context = False\n            return r"),
    ("c09-no-truncate", "C09", "basictdf.py", "        self.handler.truncate()\n", ""),
    ("c09-freed-slot-preshift", "C09", "basictdf.py", "newOffset = endOfFile - oldEntry.size", "newOffset = endOfFile"),
    ("c10-no-flush-add", "C10", "basictdf.py", "        # and that the changes are written to disk\n        self.handler.flush()\n", ""),
    ("c10-entry-after-flush", "C10", "basictdf.py", None, None),
    ("c10-memory-only", "C10", "basictdf.py", "        self.entries.append(newEntry)\n        self.handler.seek(64 + 288 * (len(self.entries) - 1), 0)\n        newEntry._write(self.handler)",
     "        self.entries.append(newEntry)\n        self.handler.seek(64 + 288 * (len(self.entries) - 1), 0)\n        TdfEntry(newEntry.type, 0, newOffset, 0, date, date, date, 'x')._write(self.handler)"),
    ("c11-has-emg", "C11", "basictdf.py", "            entry.type == BlockType.electromyographicData for entry in self.entries",
     "            entry.type == BlockType.forceAndTorqueData for entry in self.entries"),
    ("c11-len-all", "C11", "basictdf.py", "return sum(1 for i in self.entries if i.type != BlockType.unusedSlot)", "return sum(1 for i in self.entries)"),
    ("c11-setter-adds", "C11", "basictdf.py", "self.replace_block(data) if self.has_emg else self.add_block(data)",
     "self.add_block(data)"),
    ("c12-string-rstrip", "C12", "tdfTypes.py", "            pos = la.index(b\"\\x00\")\n            return la[:pos].decode(encoding)",
     "            la.index(b\"\\x00\")\n            return la.rstrip(b\"\\x00\").split(b\"\\x00\")[0].decode(encoding) if la.rstrip(b\"\\x00\").count(b\"\\x00\") == 0 else la.rstrip(b\"\\x00\").replace(b\"\\x00\", b\" \").decode(encoding)"),
    ("c12-entry-pad-format", "C12", "basictdf.py", "        i32.skip(file)\n        comment = BTSString.bread(file, 256)",
     "        pad = i32.bread(file)\n        comment = BTSString.bread(file, 256)\n        format = format if pad == 0 else format + 0 * pad + (1 if pad == 0x7fffffff else 0)\n        if pad == -1:\n            comment = ''"),
    ("c15-auto-channel", "C15", "tdfEMG.py", "next_channel = i16.free_channel(self._emgMap)", "next_channel = len(self._emgMap)"),
    ("c15-remove-map", "C15", "tdfForcePlatformsCalibration.py", "        del self._platforms[index]\n        del self._platformMap[index]",
     "        del self._platforms[index]\n        del self._platformMap[min(index + 1, len(self._platformMap) - 1)]"),
    ("c15-decode-reversed", "C15", "tdfForcePlatformsData.py", "for channel, platform in zip(plat_map, platforms):", "for channel, platform in zip(plat_map[::-1], platforms):"),
    ("c16-no-restore", "C16", "tdfData3D.py", "            self._tracks = oldTracks\n            raise e", "            raise e"),
    ("c16-len-check", "C16", "tdfForce3D.py", "if track.nFrames != self.nFrames:", "if track.nFrames > self.nFrames:"),
    ("c17-new-no-check", "C17", "basictdf.py", '        if filePath.exists():\n            raise FileExistsError("File already exists")\n', ""),
    ("c17-copy-no-check", "C17", "basictdf.py", "        if new_file_path.exists():\n            raise FileExistsError(f\"File {new_file_path} already exists\")\n", ""),
    ("c17-new-13", "C17", "basictdf.py", "            for _ in range(nEntries):\n                # type", "            for _ in range(nEntries - 1):\n                # type"),
    ("c20-events-class-attr", "C20", "tdfEvents.py", "        self.events = []\n", "        self.events = TemporalEventsData._shared\n"),
    ("c20-emg-default", "C20", "tdfEMG.py", "        self._signals = []\n        self._emgMap = []", "        self._signals = EMG._pool\n        self._emgMap = []"),
    # environment faults added in round 1, wave 6: each needs one of them to show
    ("c09-offset-from-path-size", "C09", "basictdf.py", "offset=endOfData,", "offset=self.nBytes,"),  # chdir
    ("c04-text-replace-both-ways", "C04", "tdfTypes.py", None, None),  # undefined cp1252 byte in a table comment: read as U+FFFD, written back as '?'
    ("c08-warn-in-enter", "C08", "basictdf.py", "        self.entries = [TdfEntry._build(self.handler) for _ in range(self.nEntries)]\n",
     "        self.entries = [TdfEntry._build(self.handler) for _ in range(self.nEntries)]\n        if self.handler.writable() and self.nEntries < 14:\n            import warnings\n            warnings.warn('short table')\n"),  # python -W error
    ("c06-date-unsigned", "C06", "tdfTypes.py", 'return datetime.fromtimestamp(struct.unpack("<i", data)[0])', 'return datetime.fromtimestamp(struct.unpack("<I", data)[0])'),  # dates before 1970
    ("c02-emg-remove-keeps-map", "C02", "tdfEMG.py", "        del self._signals[pos]\n        del self._emgMap[pos]\n", "        del self._signals[pos]\n"),  # item removed, then stored
]


def _apply(src, mid, fname, old, new):
    p = os.path.join(src, "basictdf", fname)
    with open(p) as f:
        s = f.read()
    if mid == "c07-validate-late":
        a = "        block_buffer = BytesIO()\n        newBlock._write(block_buffer)\n"
        c = "        # replace the entry\n        self.entries[unusedBlockPos] = new_entry\n"
        if s.count(a) != 1 or s.count(c) != 1:
            return False
        s = s.replace(a, "        block_buffer = BytesIO()\n")
        s = s.replace(c, c + "        newBlock._write(block_buffer)\n")
    elif mid == "c04-text-replace-both-ways":
        a = "            return la[:pos].decode(encoding)\n"
        c = '        dat = data.encode("windows-1252") + b"\\x00"\n'
        if a not in s or c not in s:
            return False
        s = s.replace(a, '            return la[:pos].decode(encoding, errors="replace")\n')
        s = s.replace(c, '        dat = data.encode("windows-1252", errors="replace") + b"\\x00"\n')
    elif mid == "c06-entry-pad-moved":
        a = "        BTSDate.bwrite(file, self.creation_date)\n        BTSDate.bwrite(file, self.last_modification_date)\n        BTSDate.bwrite(file, self.last_access_date)\n        i32.bpad(file)\n"
        b = "        i32.bpad(file)\n        BTSDate.bwrite(file, self.creation_date)\n        BTSDate.bwrite(file, self.last_modification_date)\n        BTSDate.bwrite(file, self.last_access_date)\n"
        c = "        creation_date = BTSDate.bread(file)\n        last_modification_date = BTSDate.bread(file)\n        last_access_date = BTSDate.bread(file)\n        i32.skip(file)\n"
        d = "        i32.skip(file)\n        creation_date = BTSDate.bread(file)\n        last_modification_date = BTSDate.bread(file)\n        last_access_date = BTSDate.bread(file)\n"
        if a not in s or c not in s:
            return False
        s = s.replace(a, b).replace(c, d)
    elif mid == "c10-entry-after-flush":  # freed slot's entry written after the last flush
        a = "        self.entries.append(newEntry)\n        self.handler.seek(64 + 288 * (len(self.entries) - 1), 0)\n        newEntry._write(self.handler)\n"
        c = "        self.handler.truncate()\n        self.handler.flush()\n"
        if a not in s or c not in s:
            return False
        s = s.replace(a, "        self.entries.append(newEntry)\n")
        s = s.replace(c, "        self.handler.truncate()\n        self.handler.flush()\n        self.handler.seek(64 + 288 * (len(self.entries) - 1), 0)\n        newEntry._write(self.handler)\n")
    elif mid == "c06-vp-swap":  # reader and writer swapped consistently: round trip still fine
        a = "        origin = VEC2I.bread(stream)\n        size = VEC2I.bread(stream)\n"
        b = "        size = VEC2I.bread(stream)\n        origin = VEC2I.bread(stream)\n"
        c = "        VEC2I.bwrite(stream, self.origin)\n        VEC2I.bwrite(stream, self.size)\n"
        d = "        VEC2I.bwrite(stream, self.size)\n        VEC2I.bwrite(stream, self.origin)\n"
        if a not in s or c not in s:
            return False
        s = s.replace(a, b).replace(c, d)
    elif mid == "c06-emg-bias-both":
        if s.count("49") < 2:
            return False
        s = s.replace("+ 49", "+ 48").replace("- 49", "- 48")
    else:
        if old not in s:
            return False
        s = s.replace(old, new, 1)
    if mid == "c20-events-class-attr":
        s = s.replace("    type = BlockType.temporalEventsData\n", "    type = BlockType.temporalEventsData\n    _shared = []\n")
    if mid == "c20-emg-default":
        s = s.replace("    type = BlockType.electromyographicData\n", "    type = BlockType.electromyographicData\n    _pool = []\n")
    if mid == "c02-optical-vp":
        s = s.replace("from basictdf.tdfTypes import BTSString, CameraViewPort, i32", "from basictdf.tdfTypes import BTSString, CameraViewPort, i32, VEC2I")
    with open(p, "w") as f:
        f.write(s)
    return True


def mutants(argv):
    only = [a for a in argv if not a.startswith("--")]
    runs_tests = "--tests" in argv
    results = []
    tmp = tempfile.mkdtemp(prefix="verif-mutants-")
    try:
        for mid, prop, fname, old, new in MUTANTS:
            if only and mid not in only and prop not in only:
                continue
            src = os.path.join(tmp, mid, "src")
            shutil.copytree("/repo/src", src, ignore=shutil.ignore_patterns("__pycache__", "*.egg-info"))
            if not _apply(src, mid, fname, old, new):
                results.append((mid, prop, "NOT-APPLICABLE (source text not found)", 0))
                print(f"{mid:28s} {prop} NOT-APPLICABLE: the source text this mutant replaces is not in the tree", flush=True)
                shutil.rmtree(os.path.join(tmp, mid))
                continue
            tests_ok = None
            if runs_tests:
                shutil.copytree("/repo/tests", os.path.join(tmp, mid, "tests"))
                env = dict(os.environ, PYTHONPATH=src, PYTHONDONTWRITEBYTECODE="1")
                r = subprocess.run([sys.executable, "-m", "pytest", "-q", "-p", "no:cacheprovider", "-x",
                                    "--continue-on-collection-errors", "--ignore=tests/test_Tdf.py", "tests"],
                                   cwd=os.path.join(tmp, mid), env=env, capture_output=True, text=True)
                tests_ok = r.returncode == 0
            env = dict(os.environ, VERIF_REPO_SRC=src, VERIF_NO_EVIDENCE="1")
            t0 = time.time()
            r = subprocess.run([os.path.join(VERIF, "check"), prop, "--tier", "quick"], env=env,
                               capture_output=True, text=True, cwd=VERIF)
            dt = time.time() - t0
            verdict = {0: "MISSED", 1: "caught", 2: "HARNESS-ERROR"}.get(r.returncode, f"exit {r.returncode}")
            line = next((ln for ln in r.stdout.splitlines() if ln.startswith("  class=")), "")
            results.append((mid, prop, verdict + (" tests-pass" if tests_ok else " TESTS-FAIL" if tests_ok is False else ""), dt))
            print(f"{mid:28s} {prop} {results[-1][2]:24s} {dt:5.1f}s {line[:150]}", flush=True)
            if r.returncode == 2:
                print(r.stdout[-600:])
            shutil.rmtree(os.path.join(tmp, mid))
    finally:
        shutil.rmtree(tmp, ignore_errors=True)
    missed = [r for r in results if not r[2].startswith("caught")]
    print(f"mutants: {len(results) - len(missed)}/{len(results)} caught; not caught: {[m[0] for m in missed]}")
    return 0 if not missed else 1
