"""Between canonical content (refcodec docstring) and library objects.

build(C)   -> a library block built the way a user (and the test-suite) builds one:
              public constructors and adders, plus the `_camMap` / `links` attribute idiom
              the suite itself uses for Data2D / Data3D.
extract(o) -> canonical content read from a library object's public attributes.
diff(a, b) -> list of (path, expected, actual) differences between two canonical contents.
"""
import datetime as _dt
import struct

import numpy as np

from basictdf.tdfBlock import BlockType, UnusedBlock  # noqa: F401
from basictdf.tdfCalibrationData import (BTSCameraData, CalibrationDataBlock,
                                         CalibrationDataBlockFormat, DistorsionModel,
                                         SeelabCameraData)
from basictdf.tdfData2D import Data2D, Data2DBlockFormat, Data2DFlags
from basictdf.tdfData3D import Data3D, Data3dBlockFormat, Flags, MarkerTrack
from basictdf.tdfEMG import EMG, EMGBlockFormat, EMGTrack
from basictdf.tdfEvents import Event, EventsDataType, TemporalEventsData, TemporalEventsDataFormat
from basictdf.tdfForce3D import ForceTorque3D, ForceTorque3DBlockFormat, ForceTorqueTrack
from basictdf.tdfForcePlatformsCalibration import (ForcePlatformCalibrationBlockFormat,
                                                   ForcePlatformInfo,
                                                   ForcePlatformsCalibrationDataBlock)
from basictdf.tdfForcePlatformsData import (ForcePlatformBlockFormat, ForcePlatformData,
                                            ForcePlatformsDataBlock)
from basictdf.tdfOpticalSystem import OpticalChannelData, OpticalSetupBlock, OpticalSetupBlockFormat
from basictdf.tdfTypes import CameraViewPort

from .refcodec import TYPE_CODE

KIND_OF_CLASS = {Data3D: "data3d", EMG: "emg", ForceTorque3D: "ft", ForcePlatformsDataBlock: "fpdata",
                 ForcePlatformsCalibrationDataBlock: "fpcal", Data2D: "data2d",
                 CalibrationDataBlock: "calib", OpticalSetupBlock: "optical",
                 TemporalEventsData: "events"}
CLASS_OF_KIND = {v: k for k, v in KIND_OF_CLASS.items()}
BLOCKTYPE = {k: BlockType(v) for k, v in TYPE_CODE.items()}
SEGMENTED = ("data3d", "emg", "ft", "fpdata")


def _as(a, dt, wide, lists_ok=False):
    if dt == "list" and not lists_ok:
        dt = False  # plain lists only where the library takes vectors as they come (see callers)
    return _as2(a, dt, wide)


def _as2(a, dt, wide):
    """The array as a user might hold it: native float32 (None/False), float64 (True/'f64'),
    big-endian of the on-disk width ('be') or of double width ('be64'), or a MaskedArray
    ('ma', only for sample rows)."""
    if dt in (None, False, "ma"):
        return a.copy()
    if dt in (True, "f64"):
        return a.astype(np.float64)
    if dt == "be":
        return a.astype(">f8" if wide else ">f4")
    if dt == "be64":
        return a.astype(">f8")
    if dt == "strided":  # a non-contiguous view (every second element of a larger array)
        big = np.zeros(tuple(2 * d for d in a.shape) if a.ndim else (), dtype=a.dtype)
        if a.ndim == 0:
            return a.copy()
        view = big[tuple(slice(None, None, 2) for _ in a.shape)]
        view[...] = a
        return view
    if dt == "fortran":
        return np.asfortranarray(a)
    if dt == "list":  # plain (nested) Python lists where a vector or matrix is expected
        return a.tolist()
    return a.copy()


def _f32(b, shape=None, f64=False, lists_ok=False):
    a = np.frombuffer(b, dtype="<f4")
    if shape is not None:
        a = a.reshape(shape)
    return _as(a, f64, False, lists_ok)


def _f64(b, shape=None, dt=None):
    a = np.frombuffer(b, dtype="<f8")
    a = a.reshape(shape) if shape is not None else a
    return _as(a, "be" if dt in ("be", "be64") else dt if dt in ("strided", "fortran") else None, True)


def _scalar32(b):
    return float(struct.unpack("<f", b)[0])


def _rows(mask, data, width, f64=False):
    """(n, width) array with NaN rows at gaps."""
    n = len(mask)
    out = np.full((n, width), np.nan, dtype=np.float32)
    idx = [i for i, c in enumerate(mask) if c == "1"]
    if data:
        vals = np.frombuffer(data, dtype="<f4").reshape(-1, width)
        out[idx] = vals
    if f64 == "ma":
        # missing frames given as a numpy.ma mask with finite numbers underneath
        present = np.zeros(n, dtype=bool)
        present[idx] = True
        filled = np.where(np.isnan(out), np.float32(1e20), out)
        return np.ma.masked_array(filled, mask=np.repeat(~present[:, None], width, axis=1))
    return _as(out, f64, False)


def _date(ts):
    return _dt.datetime.fromtimestamp(int(ts))


def build(C, f64=False, dates=None):
    """dates=(creation, modification): given to the constructor as keywords by the classes that
    accept them (optical setup, camera calibration, platform calibration), else set afterwards."""
    b = _build(C, f64, dates)
    if dates is not None and not getattr(b, "_dates_by_ctor", False):
        stamp(b, *dates)
    return b


def _ctor_dates(dates):
    if dates is None:
        return {}
    return {"creation_date": _date(dates[0]), "last_modification_date": _date(dates[1])}


def _build(C, f64=False, dates=None):
    t = C["t"]
    if t == "data3d":
        b = Data3D(C["freq"], C["nFrames"], _f32(C["vol"]), _f32(C["rot"], (3, 3)), _f32(C["trans"]),
                   _scalar32(C["start"]), Flags(C["flag"]), Data3dBlockFormat(C["fmt"]))
        if C["fmt"] in (1, 3) and (C.get("links") or C.get("links_attr")):
            from basictdf.tdfData3D import LinkType
            how = C.get("links_as", "struct")
            if how == "tuples" and C["links"]:
                b.links = [tuple(x) for x in C["links"]]  # a plain list of pairs
            elif how == "lists" and C["links"]:
                b.links = [list(x) for x in C["links"]]
            elif how == "array" and C["links"]:
                b.links = np.array(C["links"], dtype=np.int64 if max(map(max, C["links"])) < 2**31 else np.uint32)  # (n, 2)
            else:
                b.links = np.array([tuple(x) for x in C["links"]], dtype=LinkType.btype)
        for tr in C["tracks"]:
            b.add_track(MarkerTrack(tr["label"], _rows(tr["mask"], tr["data"], 3, f64)))
    elif t == "emg":
        b = EMG(C["freq"], C["nSamples"], _scalar32(C["start"]), EMGBlockFormat(C["fmt"]))
        for tr in C["tracks"]:
            b.addSignal(EMGTrack(tr["label"], _rows(tr["mask"], tr["data"], 1, f64)[:, 0]),
                        channel=tr["ch"])
    elif t == "ft":
        b = ForceTorque3D(C["freq"], C["nFrames"], _f32(C["vol"]), _f32(C["rot"], (3, 3)),
                          _f32(C["trans"]), _scalar32(C["start"]), ForceTorque3DBlockFormat(C["fmt"]))
        for tr in C["tracks"]:
            r = _rows(tr["mask"], tr["data"], 9, f64)
            keep = f64 in ("strided", "fortran")
            b.add_track(ForceTorqueTrack(tr["label"], r[:, 0:3] if keep else r[:, 0:3].copy(),
                                         r[:, 3:6] if keep else r[:, 3:6].copy(),
                                         r[:, 6:9] if keep else r[:, 6:9].copy()))
    elif t == "fpdata":
        b = ForcePlatformsDataBlock(_scalar32(C["start"]), C["freq"], C["nFrames"],
                                    ForcePlatformBlockFormat(C["fmt"]))
        for p in C["plats"]:
            r = _rows(p["mask"], p["data"], 6, f64)
            keep = f64 in ("strided", "fortran")
            b.add_platform(ForcePlatformData(r[:, 0:2] if keep else r[:, 0:2].copy(),
                                             r[:, 2:5] if keep else r[:, 2:5].copy(),
                                             r[:, 5] if keep else r[:, 5].copy()),
                           channel=p["ch"])
    elif t == "fpcal":
        b = ForcePlatformsCalibrationDataBlock(format=ForcePlatformCalibrationBlockFormat(C["fmt"]), **_ctor_dates(dates))
        b._dates_by_ctor = dates is not None
        for p in C["plats"]:
            b.add_platform(ForcePlatformInfo(p["label"], _f32(p["size"], None, "list" if f64 == "list" else False, True),
                                             _f32(p["pos"], (4, 3), "list" if f64 == "list" else False, True)),
                           channel=p["ch"])
    elif t == "data2d":
        b = Data2D(C["nCams"], C["nFrames"], C["freq"], _scalar32(C["start"]), Data2DFlags(C["flags"]),
                   Data2DBlockFormat(C["fmt"]))
        data = np.empty((C["nFrames"], C["nCams"]), dtype=object)
        for fr in range(C["nFrames"]):
            for cam in range(C["nCams"]):
                cell = C["cells"][fr][cam]
                data[fr, cam] = None if cell is None else _f32(cell, (-1, 2), f64, True)  # also a list of [x, y]
        b.data = data
        if not C.get("camMap_unset"):
            b._camMap = list(C["camMap"])  # (there is no public way to give a camera map)
        # else: a block made with the public constructor alone - cameras 0..n-1
    elif t == "calib":
        cams = []
        for c in C["cams"]:
            vp = CameraViewPort(np.array(c["vp"][0:2], dtype="<i4"), np.array(c["vp"][2:4], dtype="<i4"))
            if C["fmt"] == 1:
                cams.append(SeelabCameraData(_f64(c["R"], (3, 3), f64), _f64(c["T"], None, f64), _f64(c["focus"], None, f64),
                                             _f64(c["center"], None, f64), _f64(c["radial"], None, f64), _f64(c["decent"], None, f64),
                                             _f64(c["prism"], None, f64), vp))
            else:
                cams.append(BTSCameraData(_f64(c["R"], (3, 3), f64), _f64(c["T"], None, f64), _f64(c["focus"], None, f64),
                                          _f64(c["center"], None, f64), _f64(c["xd"], None, f64), _f64(c["yd"], None, f64), vp))
        b = CalibrationDataBlock(DistorsionModel(C["model"]), _f32(C["vol"]), _f32(C["rot"], (3, 3)),
                                 _f32(C["trans"]),
                                 # the camera map as the user may hold it: 16 bit, numpy's default int, bytes
                                 np.array(C["map"], dtype={True: np.int64, "be": ">i2", "be64": np.int32,
                                                           "strided": np.uint16}.get(f64, "<i2")), cams,
                                 CalibrationDataBlockFormat(C["fmt"]), **_ctor_dates(dates))
        b._dates_by_ctor = dates is not None
    elif t == "optical":
        chans = []
        for c in C["chans"]:
            vp = np.array([c["vp"][0:2], c["vp"][2:4]], dtype="<i4")
            chans.append(OpticalChannelData(c["idx"], c["lens"], c["type"], c["name"], vp))
        b = OpticalSetupBlock(OpticalSetupBlockFormat(C["fmt"]), chans, **_ctor_dates(dates))
        b._dates_by_ctor = dates is not None
    elif t == "events":
        b = TemporalEventsData(TemporalEventsDataFormat(C["fmt"]), _scalar32(C["start"]))
        for e in C["events"]:
            vals = np.frombuffer(e["values"], dtype="<f4")
            b.events.append(Event(e["label"], vals.copy() if f64 in (None, False, "ma") else
                                  ([float(v) for v in vals] if f64 in (True, "f64") else vals.astype(">f4")),
                                  EventsDataType(e["kind"])))
    else:
        raise ValueError(t)
    return b


def stamp(block, cdate, mdate, aware=None, micro=0):
    """aware: minutes east of UTC - the dates are given as timezone-aware datetimes in that zone
    (the same instants; the library stores instants)."""
    if aware is not None:
        tz = _dt.timezone(_dt.timedelta(minutes=aware))
        block.creation_date = _dt.datetime.fromtimestamp(int(cdate), tz)
        block.last_modification_date = _dt.datetime.fromtimestamp(int(mdate), tz)
        return block
    block.creation_date = _date(cdate)
    block.last_modification_date = _date(mdate)
    if micro:
        # a fraction of a second, as datetime.now() has: stored dates are whole seconds, the
        # second the instant lies in
        block.creation_date = block.creation_date.replace(microsecond=micro)
        block.last_modification_date = block.last_modification_date.replace(microsecond=999999 - micro)
    return block


# ---------------------------------------------------------------------------


class Unextractable(Exception):
    pass


def _b32(x):
    return np.asarray(x).astype("<f4").tobytes()


def _b64(x):
    return np.asarray(x).astype("<f8").tobytes()


def _mask_rows(arr, width):
    """arr: (n, width) float array -> (mask, data bytes of fully present rows).
    Rows that are NaN in only some components are reported as 'p' in the mask."""
    a = np.asarray(arr)
    if a.ndim == 1:
        a = a.reshape(-1, 1)
    if a.ndim != 2 or a.shape[1] != width:
        raise Unextractable(f"sample array of shape {a.shape}, expected (n,{width})")
    nan = np.isnan(a.astype(np.float64))
    allnan = nan.all(axis=1)
    anynan = nan.any(axis=1)
    mask = "".join("0" if allnan[i] else ("p" if anynan[i] else "1") for i in range(a.shape[0]))
    keep = ~allnan
    return mask, a[keep].astype("<f4").tobytes()


def _vp(v):
    o = [int(x) for x in np.asarray(v.origin).reshape(-1)]
    s = [int(x) for x in np.asarray(v.size).reshape(-1)]
    if len(o) != 2 or len(s) != 2:
        raise Unextractable("viewport shape")
    return o + s


def _emg_channels_from_bytes(o):
    import io
    from . import refcodec
    b = io.BytesIO()
    o._write(b)
    return [tr["ch"] for tr in refcodec.decode(11, 1, b.getvalue())[0]["tracks"]]


def _enumv(x):
    return int(getattr(x, "value", x))


def extract(o):
    """Canonical content of a library object; anything that cannot be read as such - wrong
    attribute types, wrong shapes, foreign objects inside - is Unextractable, never a crash."""
    try:
        return _extract(o)
    except Unextractable:
        raise
    except Exception as e:
        raise Unextractable(f"{type(e).__name__}: {e}")


def _extract(o):
    t = KIND_OF_CLASS.get(type(o))
    if t is None:
        raise Unextractable(f"unexpected object {type(o).__name__}")
    if t == "data3d":
        C = {"t": t, "fmt": _enumv(o.format), "nFrames": int(o.nFrames), "freq": int(o.frequency),
             "start": _b32(o.startTime), "flag": _enumv(o.flag), "vol": _b32(o.volume),
             "rot": _b32(o.rotationMatrix), "trans": _b32(o.translationVector), "tracks": []}
        if C["fmt"] == 1:
            links = getattr(o, "links", [])
            C["links"] = [[int(a), int(b)] for a, b in links]
        for tr in o:
            m, d = _mask_rows(tr.data, 3)
            C["tracks"].append({"label": tr.label, "mask": m, "data": d})
    elif t == "emg":
        C = {"t": t, "fmt": _enumv(o.format), "nSamples": int(o.nSamples), "freq": int(o.frequency),
             "start": _b32(o.startTime), "tracks": []}
        sigs = list(o)
        chans = list(o._emgMap) if hasattr(o, "_emgMap") else _emg_channels_from_bytes(o)
        if len(chans) != len(sigs):
            raise Unextractable(f"EMG: {len(chans)} channels for {len(sigs)} signals")
        for ch, tr in zip(chans, sigs):
            m, d = _mask_rows(tr.data, 1)
            C["tracks"].append({"ch": int(ch), "label": tr.label, "mask": m, "data": d})
    elif t == "ft":
        C = {"t": t, "fmt": _enumv(o.format), "nFrames": int(o.nFrames), "freq": int(o.frequency),
             "start": _b32(o.startTime), "vol": _b32(o.volume), "rot": _b32(o.rotationMatrix),
             "trans": _b32(o.translationVector), "tracks": []}
        for tr in o:
            a = np.concatenate([np.asarray(tr.application_point).reshape(-1, 3),
                                np.asarray(tr.force).reshape(-1, 3),
                                np.asarray(tr.torque).reshape(-1, 3)], axis=1)
            m, d = _mask_rows(a, 9)
            C["tracks"].append({"label": tr.label, "mask": m, "data": d})
    elif t == "fpdata":
        C = {"t": t, "fmt": _enumv(o.format), "nFrames": int(o.n_frames), "freq": int(o.frequency),
             "start": _b32(o.start_time), "plats": []}
        for ch, p in o:
            ap = np.asarray(p.application_point)
            a = np.concatenate([ap.reshape(-1, 2), np.asarray(p.force).reshape(-1, 3),
                                np.asarray(p.torque).reshape(-1, 1)], axis=1)
            m, d = _mask_rows(a, 6)
            C["plats"].append({"ch": int(ch), "mask": m, "data": d})
    elif t == "fpcal":
        C = {"t": t, "fmt": _enumv(o.format), "plats": []}
        for ch, p in o.platforms:
            C["plats"].append({"ch": int(ch), "label": p.label, "size": _b32(p.size),
                               "pos": _b32(p.position)})
    elif t == "data2d":
        C = {"t": t, "fmt": _enumv(o.format), "nCams": int(o.nCams), "nFrames": int(o.nFrames),
             "freq": int(o.frequency), "start": _b32(o.startTime), "flags": _enumv(o.flags),
             "camMap": [int(x) for x in o._camMap], "cells": []}
        data = o.data
        if data.shape != (C["nFrames"], C["nCams"]):
            raise Unextractable(f"2D data of shape {data.shape}")
        for fr in range(C["nFrames"]):
            row = []
            for cam in range(C["nCams"]):
                cell = data[fr, cam]
                row.append(None if cell is None or len(cell) == 0 else _b32(cell))
            C["cells"].append(row)
    elif t == "calib":
        C = {"t": t, "fmt": _enumv(o.format), "model": _enumv(o.distorsion_model),
             "vol": _b32(o.calibration_volume_size), "rot": _b32(o.calibration_volume_rotation_matrix),
             "trans": _b32(o.calibration_volume_translation_vector),
             "map": [int(x) for x in o.cameras_calibration_map], "cams": []}
        for c in o.cam_data:
            d = {"R": _b64(c.rotation_matrix), "T": _b64(c.translation_vector), "focus": _b64(c.focus),
                 "center": _b64(c.optical_center)}
            if isinstance(c, SeelabCameraData):
                d.update(radial=_b64(c.radial_distortion), decent=_b64(c.decentering),
                         prism=_b64(c.thin_prism))
            else:
                d.update(xd=_b64(c.x_distortion_coefficients), yd=_b64(c.y_distortion_coefficients))
            d["vp"] = _vp(c.view_port)
            C["cams"].append(d)
    elif t == "optical":
        C = {"t": t, "fmt": _enumv(o.format), "chans": []}
        for c in o:
            C["chans"].append({"idx": int(c.logical_camera_index), "lens": c.lens_name,
                               "type": c.camera_type, "name": c.camera_name,
                               "vp": _vp(c.camera_viewport)})
    elif t == "events":
        C = {"t": t, "fmt": _enumv(o.format), "start": _b32(o.start_time), "events": []}
        for e in o:
            C["events"].append({"label": e.label, "kind": _enumv(e.type), "values": _b32(e.values)})
    return C


def diff(exp, act, path="", out=None, limit=6):
    if out is None:
        out = []
    if len(out) >= limit:
        return out
    if isinstance(exp, dict) and isinstance(act, dict):
        for k in exp:
            if k in ("links_attr", "links_as", "camMap_unset"):
                continue
            if k not in act:
                out.append((f"{path}.{k}", _short(exp[k]), "<missing>"))
            else:
                diff(exp[k], act[k], f"{path}.{k}", out, limit)
        for k in act:
            if k not in exp and k not in ("links_attr", "links_as", "camMap_unset"):
                out.append((f"{path}.{k}", "<missing>", _short(act[k])))
    elif isinstance(exp, list) and isinstance(act, list):
        if len(exp) != len(act):
            out.append((f"{path}.len", len(exp), len(act)))
        for i, (a, b) in enumerate(zip(exp, act)):
            diff(a, b, f"{path}[{i}]", out, limit)
    else:
        if exp != act or type(exp) is not type(act) and not (isinstance(exp, int) and isinstance(act, int)):
            out.append((path, _short(exp), _short(act)))
    return out


def _short(v):
    if isinstance(v, (bytes, bytearray)):
        h = bytes(v).hex()
        return h if len(h) <= 48 else h[:48] + f"..({len(v)}B)"
    s = repr(v)
    return s if len(s) <= 80 else s[:80] + ".."


def mask_paths(diffs):
    """True when any difference is about presence masks (gap positions)."""
    return any(p.endswith(".mask") for p, _e, _a in diffs)
